#!/bin/bash
# usage: ./runall.sh [tier] [seed]   — runs every check, prints one summary line each
tier=${1:-quick}; seed=${2:-1}
for i in $(seq -w 1 20); do
  out=$(VERIF_SEED=$seed ./ofv check C$i --tier $tier 2>&1); rc=$?
  echo "rc=$rc $(echo "$out" | grep -E '^(HELD|VIOLATED|INCONCLUSIVE) ' | tail -1)"
  echo "$out" | grep -E '^(VIOLATION|INCONCLUSIVE property|KNOWN)' | cut -c1-260 | head -6
done
