#!/usr/bin/env python3
"""Regenerates MANIFEST.json from ofv_props.PROPS (claimed checks) and the not-applicable table below."""
import json, os, sys
sys.path.insert(0, os.path.dirname(os.path.abspath(__file__)))
from ofv_props import PROPS

ALL = ["C%02d" % i for i in range(1, 21)]
NOT_YET = "check not built yet in this round (runtime-monitoring design in DESIGN.md section 5); not claimed until its harness exists"

checks = []
for pid in ALL:
    if pid not in PROPS:
        continue
    s = PROPS[pid]
    checks.append(dict(
        property_id=pid,
        quick_cmd="./ofv check %s --tier quick" % pid,
        thorough_cmd="./ofv check %s --tier thorough" % pid,
        evidence_file="/verif/evidence/%s.json" % pid,
        replay_cmd_template="./ofv replay {path}",
        engine="harness",
        level_claimed=dict(category="exploration", text=s.get("level_text", "held on the executions observed: " + s["rule"])[:1500],
                           design_ref="DESIGN.md section 5, " + pid),
        level_note=s.get("level_note", "trusted base: gcc 12 sanitizer runtimes, the harness oracles (self-tested before every run), the kernel's page protection; nothing is claimed about inputs the workload does not generate"),
        technique=s.get("technique", "runtime monitoring: generated workloads on the real code under ASan/UBSan and on the -O3 build, judged by an independent oracle"),
    ))
na = [dict(property_id=p, reason=NOT_YET) for p in ALL if p not in PROPS]
m = dict(
    version=1,
    setup_cmd="./ofv setup",
    hooks=dict(guard="OPENFEC_VERIF", enable="no source hooks are needed: checks compile /repo's sources as they are (see DESIGN.md section 6); the guard name is reserved",
               baseline_off_cmd="./ofv baseline", source_commits=[], add_only=True),
    engines=[dict(name="harness", path="/verif/harness + /verif/ofv", serves_properties=[c["property_id"] for c in checks],
                  kind_free_text="C monitors/oracles linked with the library rebuilt from /repo (ASan+UBSan build, -O3 guard-page build), python3 stdlib driver: sharding, crash triage, known-findings matching, evidence")],
    checks=checks,
    notes="Runtime monitoring and sanitizers only. Genuine defects found are either repaired in /repo ('fix:' commits) or listed in known_findings.txt; see DESIGN.md section 7.",
    not_applicable=na,
)
json.dump(m, open(os.path.join(os.path.dirname(os.path.abspath(__file__)), "MANIFEST.json"), "w"), indent=1)
print("MANIFEST.json: %d checks, %d not claimed" % (len(checks), len(na)))
