#!/usr/bin/env python3
"""Regenerates section 11 of DESIGN.md (seeded breaking changes) from seeded/*/meta.json."""
import json, os
V = os.path.dirname(os.path.abspath(__file__))
rows = []
for d in sorted(os.listdir(os.path.join(V, "seeded"))):
    mp = os.path.join(V, "seeded", d, "meta.json")
    if os.path.exists(mp):
        m = json.load(open(mp))
        rows.append((d, m["property"], m["needs_to_manifest"], ", ".join(m["checks_expected_to_fire"]) or "- (see below)", m.get("history", "")))
out = ["## 11. Seeded breaking changes: which checks catch which changes", "",
"(Changes whose demonstration leaves the documented protocol are kept apart under `seeded/_discarded/` with the reason; no check is expected to fire on them: so far C11-e, which mixes the two submission styles in one session, C16-e, which re-uses an instance after OF_STATUS_FATAL_ERROR, C08-h, whose repair-symbol callback returns a buffer although it is documented not to, and C18-i, which needs NULL right-hand sides for the solver.)", "",
"Each change below was produced by a fresh sub-agent that was given only the text of one property and a",
"scratch git worktree of `/repo` (nothing from `/verif`). Each compiles, passes all 265 baseline tests, and",
"comes with a demonstration program that fails with the change and passes without it; all three facts were",
"re-confirmed independently in a scratch worktree (`confirm_mut.sh`) before the change was kept under",
"`seeded/<id>/` (patch.diff, demo, NOTES.md, meta.json). `./ofv seeded` re-applies every patch to a scratch",
"worktree and re-runs the listed quick checks against that copy (`OFV_REPO`), so the sensitivity of the",
"machinery is itself regression-tested. None of these changes is ever committed to `/repo`.", "",
"%d changes are kept, from nine rounds (suffix a..i; each round told the sub-agent what the earlier rounds had done and asked for a different place and trigger). %d of them were missed by the check of their own property when first tried (a few were seen by the check of another property); every one is caught now, by the workload additions listed after the table. What the rounds taught is summarised in 10.6: random sampling finds what is dense, everything on a boundary, in a rare order, in the caller's environment or in the history of the process has to be constructed on purpose." % (len(rows), sum(1 for r in rows if r[4].startswith("first run: missed"))), "",
"| id | breaks | what it needs to manifest | caught by (quick tier) |", "|---|---|---|---|"]
for r in rows:
    out.append("| %s | %s | %s | %s |" % (r[0], r[1], r[2].replace("|", "/"), r[3]))
out += ["", "Checks that missed (or barely caught) a change at first, and what was strengthened — never loosened:", ""]
for r in rows:
    if r[4]:
        out.append("* **%s** — %s" % (r[0], r[4]))
txt = "\n".join(out) + "\n"
p = os.path.join(V, "DESIGN.md")
s = open(p).read()
marker = "## 11. Seeded breaking changes"
if marker in s:
    s = s[:s.index(marker)] + txt
else:
    s = s.rstrip("\n") + "\n\n---------------------------------------------------------------------------------------------------\n\n" + txt
open(p, "w").write(s)
print("section 11:", len(rows), "seeded changes")
