/* C18 — dense GF(2) matrix and the ML solver agree with exact bit-matrix algebra (DESIGN.md §5 C18). */
#include "common.h"
#include "ledger.h"
#include "gf2.h"
#include "of_openfec_api.h"
#include "linear_binary_codes_utils/of_linear_binary_code.h"

#define MAXR 72
#define MAXC 132
typedef struct { of_mod2dense *m; int R, C; uint8_t M[MAXR][MAXC]; } dmat_t;
static dmat_t g_d[3];
static const char *g_op = "";
static uint64_t g_ops;
static const int COLS[] = { 1, 2, 7, 31, 32, 33, 63, 64, 65, 95, 96, 97, 130 };
#define NCOLS ((int)(sizeof COLS / sizeof COLS[0]))

static void vio(const char *fmt, ...)
{
	char key[96], det[300]; va_list ap;
	snprintf(key, sizeof key, "dense-model:%s", g_op);
	va_start(ap, fmt); vsnprintf(det, sizeof det, fmt, ap); va_end(ap);
	rep_viol(key, "%s", det);
}
static void check(dmat_t *d)
{
	if (!d->m) return;
	if ((int)of_mod2dense_rows(d->m) != d->R || (int)of_mod2dense_cols(d->m) != d->C) { vio("dimensions differ"); return; }
	for (int i = 0; i < d->R; i++) {
		int w = 0;
		for (int j = 0; j < d->C; j++) {
			int b = of_mod2dense_get(d->m, (UINT32)i, (UINT32)j) ? 1 : 0;
			if (b != d->M[i][j]) { vio("get(%d,%d)=%d, model %d (%dx%d)", i, j, b, d->M[i][j], d->R, d->C); return; }
			w += b;
		}
		if ((int)of_mod2dense_row_weight(d->m, (UINT32)i) != w) { const char *sv = g_op; g_op = "row_weight"; vio("row_weight(%d) != %d", i, w); g_op = sv; return; }
		if ((of_mod2dense_row_is_empty(d->m, (UINT32)i) ? 1 : 0) != (w == 0)) { const char *sv = g_op; g_op = "row_is_empty"; vio("row_is_empty(%d) disagrees (weight %d)", i, w); g_op = sv; return; }
		/* padding bits beyond n_cols stay clear: of_hweight_array over the stored words must equal the weight */
		if ((int)of_hweight_array((UINT32 *)d->m->row[i], d->C) != w) { const char *sv = g_op; g_op = "hweight_array"; vio("of_hweight_array(row %d) != %d", i, w); g_op = sv; return; }
		/* weight of the row without its first whole words (the form the ML tools use): every word offset, so that
		 * the counted span starts at both 8-byte-aligned and 4-mod-8 addresses with odd and even word counts */
		for (int ign = 0; ign < d->C; ign += 32) {
			int wi = 0; for (int j = ign; j < d->C; j++) wi += d->M[i][j];
			int got = (int)of_mod2dense_row_weight_ignore_first(d->m, (UINT32)i, (UINT32)ign);
			if (got != wi) { const char *sv = g_op; g_op = "row_weight_ignore_first"; vio("row_weight_ignore_first(row %d, ignore %d) = %d, model %d (%dx%d)", i, ign, got, wi, d->R, d->C); g_op = sv; return; }
		}
	}
	for (int j = 0; j < d->C; j++) {
		int w = 0; for (int i = 0; i < d->R; i++) w += d->M[i][j];
		if ((int)of_mod2dense_col_weight(d->m, (UINT32)j) != w) { const char *sv = g_op; g_op = "col_weight"; vio("col_weight(%d) != %d", j, w); g_op = sv; return; }
	}
}
static void d_alloc(int k, int R, int C) { g_op = "allocate"; LIB_ENTER(); g_d[k].m = of_mod2dense_allocate((UINT32)R, (UINT32)C); LIB_LEAVE(); g_d[k].R = R; g_d[k].C = C; memset(g_d[k].M, 0, sizeof g_d[k].M); if (!g_d[k].m) vio("allocate returned NULL"); }
static void d_free(int k) { if (g_d[k].m) { g_op = "free"; LIB_ENTER(); of_mod2dense_free(g_d[k].m); LIB_LEAVE(); g_d[k].m = NULL; } }

/* index arrays for copyrows / copycols: uniform random, or near-regular (identity, shifted window, reversed) with a few
 * entries exchanged or repeated: code that recognises runs must not trust their two ends only */
static void index_array(rng_t *r, UINT32 *idx, int n, int src)
{
	unsigned mode = rng_below(r, 6);
	if (mode == 0 || src < 1) { for (int x = 0; x < n; x++) idx[x] = rng_below(r, (uint32_t)src); return; }
	int shift = mode >= 3 ? (int)(32 * rng_below(r, (uint32_t)(src / 32 + 1))) : (int)rng_below(r, (uint32_t)src);
	for (int x = 0; x < n; x++) idx[x] = (UINT32)((mode == 2 ? src - 1 - (x % src) : (x + shift) % src));
	int nswap = mode == 1 || mode == 2 ? 0 : 1 + (int)rng_below(r, 3);
	for (int q = 0; q < nswap && n > 1; q++) {
		int a = (int)rng_below(r, (uint32_t)n), b = (int)rng_below(r, (uint32_t)n);
		if (mode == 5) idx[a] = idx[b]; else { UINT32 t = idx[a]; idx[a] = idx[b]; idx[b] = t; }
	}
}

static void dense_sequence(rng_t *r, int len)
{
	led_reset(); g_led_bad_free = 0;
	int R = 1 + (int)rng_below(r, 70), C = COLS[rng_below(r, NCOLS)];
	d_alloc(0, R, C);
	/* destinations both equal to and larger than the source, rows != cols on purpose */
	int R1 = R + (rng_below(r, 2) ? 0 : (int)rng_below(r, 3)), C1 = rng_below(r, 2) ? C : COLS[rng_below(r, NCOLS)]; if (C1 < C) C1 = C;
	d_alloc(1, R1 > MAXR ? MAXR : R1, C1);
	d_alloc(2, R, C);
	uint64_t v0 = g_viol_total;
	for (int s = 0; s < len && g_viol_total == v0; s++) {
		int k = (int)rng_below(r, 3); dmat_t *d = &g_d[k]; unsigned op = rng_below(r, 100);
		int i = (int)rng_below(r, (uint32_t)d->R), j = (int)rng_below(r, (uint32_t)d->C);
		g_ops++;
		if (op < 35) { int v = (int)rng_below(r, 2); g_op = "set"; if (of_mod2dense_set(d->m, (UINT32)i, (UINT32)j, (UINT32)v) != 0) vio("set returned an error for in-range indices"); d->M[i][j] = (uint8_t)v; }
		else if (op < 50) { g_op = "flip"; UINT32 b = of_mod2dense_flip(d->m, (UINT32)i, (UINT32)j); d->M[i][j] ^= 1; if ((b ? 1 : 0) != d->M[i][j]) vio("flip(%d,%d) returned %u, new value %d", i, j, b, d->M[i][j]); }
		else if (op < 58) { g_op = "get"; int b = of_mod2dense_get(d->m, (UINT32)i, (UINT32)j) ? 1 : 0; if (b != d->M[i][j]) vio("get(%d,%d)", i, j); }
		else if (op < 62) { g_op = "clear"; of_mod2dense_clear(d->m); memset(d->M, 0, sizeof d->M); }
		else if (op < 70) { /* copy 0 -> 1 (dest at least as large) or 0 -> 2 */
			int b = 1 + (int)rng_below(r, 2); g_op = "copy"; of_mod2dense_copy(g_d[0].m, g_d[b].m);
			memset(g_d[b].M, 0, sizeof g_d[b].M); for (int x = 0; x < g_d[0].R; x++) memcpy(g_d[b].M[x], g_d[0].M[x], (size_t)g_d[0].C); k = b; }
		else if (op < 78) { int b = 1 + (int)rng_below(r, 2); UINT32 rows[MAXR]; index_array(r, rows, g_d[b].R, g_d[0].R);
			g_op = "copyrows"; of_mod2dense_copyrows(g_d[0].m, g_d[b].m, rows);
			memset(g_d[b].M, 0, sizeof g_d[b].M); for (int x = 0; x < g_d[b].R; x++) memcpy(g_d[b].M[x], g_d[0].M[rows[x]], (size_t)g_d[0].C); k = b; }
		else if (op < 86) { int b = 1 + (int)rng_below(r, 2); UINT32 cols[MAXC]; index_array(r, cols, g_d[b].C, g_d[0].C);
			g_op = "copycols"; of_mod2dense_copycols(g_d[0].m, g_d[b].m, cols);
			memset(g_d[b].M, 0, sizeof g_d[b].M); for (int x = 0; x < g_d[b].C; x++) for (int y = 0; y < g_d[0].R; y++) g_d[b].M[y][x] = g_d[0].M[y][cols[x]]; k = b; }
		else if (op < 96) { int t = (int)rng_below(r, (uint32_t)d->R); g_op = "xor_rows"; of_mod2dense_xor_rows(d->m, (UINT16)i, (UINT16)t); if (t != i) for (int x = 0; x < d->C; x++) d->M[t][x] ^= d->M[i][x]; else memset(d->M[t], 0, (size_t)d->C); }
		else if (op >= 98 && d->R >= d->C) {
			/* the exported solver pivots by exchanging the matrix's row pointers: afterwards the object is still a valid matrix for the whole
			 * API, but its rows are no longer stored back to back. The model is re-read bit by bit and the sequence goes on with this matrix. */
			g_op = "solve_dense_system";
			of_linear_binary_code_cb_t cb; memset(&cb, 0, sizeof cb); cb.encoding_symbol_length = 1;
			cb.tmp_tab_symbols = malloc(sizeof(void *) * (size_t)(d->R + d->C + 4));
			void **ct = calloc((size_t)d->R, sizeof *ct), **vt = calloc((size_t)d->C, sizeof *vt);
			for (int x = 0; x < d->R; x++) ct[x] = of_calloc(1, 1);
			(void)of_linear_binary_code_solve_dense_system(&cb, d->m, ct, vt);
			for (int x = 0; x < d->C; x++) if (vt[x]) of_free(vt[x]);
			for (int x = 0; x < d->R; x++) if (ct[x]) of_free(ct[x]);
			free(ct); free(vt); free(cb.tmp_tab_symbols);
			for (int x = 0; x < d->R; x++) for (int y = 0; y < d->C; y++) d->M[x][y] = of_mod2dense_get(d->m, (UINT32)x, (UINT32)y) ? 1 : 0;
			rep_count("matrices_reused_after_the_solver_permuted_their_rows", 1);
		}
		else { /* sparse <-> dense conversions agree with the model too */
			g_op = "dense_to_sparse"; of_mod2sparse *sp = of_mod2sparse_allocate((UINT32)d->R, (UINT32)d->C); of_mod2dense_to_sparse(d->m, sp);
			for (int x = 0; x < d->R; x++) for (int y = 0; y < d->C; y++) if ((of_mod2sparse_find(sp, (UINT32)x, (UINT32)y) != NULL) != (d->M[x][y] != 0)) { vio("entry (%d,%d)", x, y); x = d->R; break; }
			of_mod2sparse_free(sp); of_free(sp); }
		if (g_viol_total == v0) {
			/* point operations: the touched cell is checked at once; bulk operations: the whole matrix */
			if (op < 58) { if ((of_mod2dense_get(d->m, (UINT32)i, (UINT32)j) ? 1 : 0) != d->M[i][j]) vio("cell (%d,%d) reads %d after the operation, model %d", i, j, !d->M[i][j], d->M[i][j]); if ((s % 9) == 0) check(d); }
			else check(&g_d[k]);
		}
	}
	for (int k = 0; k < 3; k++) { if (g_viol_total == v0) { g_op = "final-check"; check(&g_d[k]); } d_free(k); }
	if (g_led_bad_free) { rep_viol("dense-asan:double-free", "free of a non-live block"); g_led_bad_free = 0; }
	if (led_live_count()) rep_viol("dense-leak", "%llu block(s) still allocated after of_mod2dense_free", (unsigned long long)led_live_count());
}

/* ---- popcount helpers ---- */
UINT8 of_hweight8_table(UINT8 w);
static void popcounts(rng_t *r, long nrand)
{
	g_op = "popcount";
	for (uint32_t h = 0; h < 65536; h++) for (int hi = 0; hi < 2; hi++) {
		uint32_t w = hi ? h << 16 : h; unsigned want = (unsigned)__builtin_popcount(w);
		if (of_hweight32(w) != want) { rep_viol("dense-model:of_hweight32", "w=0x%x got %u want %u", w, of_hweight32(w), want); return; }
		if (of_hweight32_table(w) != want) { rep_viol("dense-model:of_hweight32_table", "w=0x%x got %u want %u", w, of_hweight32_table(w), want); return; }
		if (of_hweight32_naive(w) != want) { rep_viol("dense-model:of_hweight32_naive", "w=0x%x got %u want %u", w, of_hweight32_naive(w), want); return; }
		if ((unsigned)of_popcount_3(((uint64_t)w << 32) | (w * 2654435761u)) != (unsigned)__builtin_popcountll(((uint64_t)w << 32) | (w * 2654435761u))) { rep_viol("dense-model:of_popcount_3", "w=0x%x", w); return; }
		if (h < 256 && !hi && of_hweight8_table((UINT8)h) != want) { rep_viol("dense-model:of_hweight8_table", "w=0x%x", w); return; }
	}
	for (long i = 0; i < nrand; i++) {
		uint64_t x = rng_u64(r); uint32_t w = (uint32_t)x; unsigned want = (unsigned)__builtin_popcount(w);
		if (of_hweight32(w) != want || of_hweight32_table(w) != want || of_hweight32_naive(w) != want) { rep_viol("dense-model:of_hweight32", "w=0x%x", w); return; }
		if ((unsigned)of_popcount_3(x) != (unsigned)__builtin_popcountll(x)) { rep_viol("dense-model:of_popcount_3", "x=0x%llx", (unsigned long long)x); return; }
	}
	/* of_hweight_array on bit strings of every length 1..320 (padding bits clear), starting at every word offset
	 * of an 8-byte-aligned buffer: rows of a dense matrix with an odd number of words start at 4-mod-8 addresses */
	for (int off = 0; off < 4; off++) for (int bits = 1; bits <= 320; bits++) {
		static uint64_t store[10]; UINT32 *arr = (UINT32 *)store + off; unsigned want = 0;
		memset(store, 0, sizeof store);
		for (int b = 0; b < bits; b++) if (rng_below(r, 2) || b == bits - 1) { arr[b / 32] |= 1u << (b % 32); want++; }
		unsigned got = of_hweight_array(arr, bits);
		if (got != want) { rep_viol("dense-model:of_hweight_array", "bits=%d word-offset=%d got %u want %u", bits, off, got, want); return; }
		g_ops++;
	}
	g_ops += 65536 * 2 * 4 + (uint64_t)nrand * 4;
}

/* ---- solver ---- */
static void solver_case(rng_t *r, int q, int p, int L, int deficient)
{
	if (!rep_case("solver p=%d q=%d L=%d rank-deficient=%d", p, q, L, deficient)) return;
	led_reset(); g_led_bad_free = 0;
	of_linear_binary_code_cb_t cb; memset(&cb, 0, sizeof cb);
	cb.encoding_symbol_length = (UINT32)L;
	cb.tmp_tab_symbols = malloc(sizeof(void *) * (size_t)(p + q + 4));
	/* matrix with the requested column rank */
	uint8_t (*A)[MAXC] = calloc((size_t)p, sizeof *A);
	uint64_t *rows = NULL; int words = (q + 63) / 64, tries = 0;
	for (;;) {
		for (int i = 0; i < p; i++) for (int j = 0; j < q; j++) A[i][j] = (uint8_t)(rng_below(r, 100) < (q > 40 ? 12u : 45u));
		if (deficient == 1 && q >= 2) { int a = (int)rng_below(r, (uint32_t)q), b; do b = (int)rng_below(r, (uint32_t)q); while (b == a); for (int i = 0; i < p; i++) A[i][b] = A[i][a]; }   /* duplicate column */
		if (deficient == 2) { int a = (int)rng_below(r, (uint32_t)q); for (int i = 0; i < p; i++) A[i][a] = 0; }                                                             /* zero column */
		if (deficient == 3 && q >= 3) { int a = (int)rng_below(r, (uint32_t)q), b, c; do b = (int)rng_below(r, (uint32_t)q); while (b == a); do c = (int)rng_below(r, (uint32_t)q); while (c == a || c == b);
			for (int i = 0; i < p; i++) A[i][c] = A[i][a] ^ A[i][b]; }                                                                                               /* dependent column */
		free(rows); rows = calloc((size_t)p * (size_t)words + 1, 8);
		for (int i = 0; i < p; i++) for (int j = 0; j < q; j++) if (A[i][j]) rows[(size_t)i * (size_t)words + (size_t)j / 64] |= 1ULL << (j % 64);
		int rk = (int)gf2_rank(rows, (unsigned)p, (unsigned)words);
		if (deficient ? rk < q : rk == q) break;
		if (++tries > 200) { free(rows); free(A); free(cb.tmp_tab_symbols); rep_case_done(0, 0, 1); return; }
	}
	free(rows);
	LIB_ENTER(); of_mod2dense *m = of_mod2dense_allocate((UINT32)p, (UINT32)q); LIB_LEAVE();
	for (int i = 0; i < p; i++) for (int j = 0; j < q; j++) if (A[i][j]) of_mod2dense_set(m, (UINT32)i, (UINT32)j, 1);
	/* planted solution and right-hand sides b = A x (all right-hand sides are real symbols) */
	uint8_t **x = calloc((size_t)q, sizeof *x); void **ct = calloc((size_t)p, sizeof *ct), **vt = calloc((size_t)q, sizeof *vt);
	for (int j = 0; j < q; j++) { x[j] = malloc((size_t)L + 1); for (int b = 0; b < L; b++) x[j][b] = (uint8_t)rng_u64(r); }
	LIB_ENTER();
	for (int i = 0; i < p; i++) { ct[i] = of_calloc(1, (size_t)L); for (int j = 0; j < q; j++) if (A[i][j]) for (int b = 0; b < L; b++) ((uint8_t *)ct[i])[b] ^= x[j][b]; }
	of_status_t st = of_linear_binary_code_solve_dense_system(&cb, m, ct, vt);
	LIB_LEAVE();
	g_ops++;
	if (!deficient) {
		if (st != OF_STATUS_OK) rep_viol("solver-missed", "full column rank %dx%d system reported as unsolvable (status %d)", p, q, st);
		else for (int j = 0; j < q; j++) if (!vt[j] || memcmp(vt[j], x[j], (size_t)L)) { rep_viol("solver-wrong", "variable %d of a %dx%d system differs from the planted solution (L=%d)", j, p, q, L); break; }
		rep_count("solver_full_rank_systems", 1);
	} else {
		if (st == OF_STATUS_OK) rep_viol("solver-false-ok", "rank-deficient %dx%d system (kind %d) reported as solved", p, q, deficient);
		rep_count("solver_rank_deficient_systems", 1);
	}
	/* release: every buffer is in exactly one of the two tables */
	LIB_ENTER();
	for (int j = 0; j < q; j++) if (vt[j]) of_free(vt[j]);
	for (int i = 0; i < p; i++) if (ct[i]) of_free(ct[i]);
	of_mod2dense_free(m);
	LIB_LEAVE();
	if (g_led_bad_free) { rep_viol("dense-asan:double-free", "a right-hand side was reachable from both tables after the solver returned"); g_led_bad_free = 0; }
	if (led_live_count()) rep_viol("solver-leak", "%llu buffer(s) allocated by the solver are reachable from neither table", (unsigned long long)led_live_count());
	for (int j = 0; j < q; j++) free(x[j]);
	free(x); free(ct); free(vt); free(A); free(cb.tmp_tab_symbols);
	rep_case_done(1, 0, 1);
}

/* rows wider than 31 / 32 / 255 words with whole byte lanes set: word-wise popcounts that accumulate per-byte sums overflow there */
static void wide_case(int C, int pattern, rng_t *r)
{
	if (!rep_case("wide dense matrix 3x%d pattern=%d", C, pattern)) return;
	of_mod2dense *m = of_mod2dense_allocate(3, (UINT32)C); uint8_t *row = calloc((size_t)C + 1, 1);
	for (int i = 0; i < 3; i++) {
		long w = 0;
		for (int j = 0; j < C; j++) {
			int b;
			switch ((pattern + i) % 5) {
			case 0: b = 1; break;                                        /* all ones */
			case 1: b = (j % 32) < 8; break;                             /* byte lane 0 of every word */
			case 2: b = (j % 32) >= 24; break;                           /* byte lane 3 */
			case 3: b = rng_below(r, 16) != 0; break;                    /* dense random */
			default: b = (j / 32) % 2 == 0; break;                       /* every other word full */
			}
			row[j] = (uint8_t)b; w += b;
			if (b) of_mod2dense_set(m, (UINT32)i, (UINT32)j, 1);
		}
		g_op = "row_weight";
		if ((long)of_mod2dense_row_weight(m, (UINT32)i) != w) vio("row_weight(%d) = %u on a %d-column row of weight %ld (pattern %d)", i, of_mod2dense_row_weight(m, (UINT32)i), C, w, (pattern + i) % 5);
		g_op = "hweight_array";
		if ((long)of_hweight_array((UINT32 *)m->row[i], C) != w) vio("of_hweight_array = %u on a %d-column row of weight %ld", of_hweight_array((UINT32 *)m->row[i], C), C, w);
		g_op = "row_weight_ignore_first";
		for (int ign = 0; ign < C; ign += 32 * (1 + C / 320)) { long wi = 0; for (int j = ign; j < C; j++) wi += row[j]; if ((long)of_mod2dense_row_weight_ignore_first(m, (UINT32)i, (UINT32)ign) != wi) { vio("row_weight_ignore_first(%d) on a %d-column row", ign, C); break; } }
		g_op = "row_is_empty";
		if ((of_mod2dense_row_is_empty(m, (UINT32)i) ? 1 : 0) != (w == 0)) vio("row_is_empty on a %d-column row of weight %ld", C, w);
		g_ops += 4;
	}
	g_op = "col_weight";
	for (int j = 0; j < C; j += 1 + C / 97) { unsigned cw = 0; for (int i = 0; i < 3; i++) cw += of_mod2dense_get(m, (UINT32)i, (UINT32)j) ? 1u : 0u; if (of_mod2dense_col_weight(m, (UINT32)j) != cw) { vio("col_weight(%d) of a 3x%d matrix", j, C); break; } }
	of_mod2dense_free(m); free(row);
	rep_case_done(1, 0, 1);
}

/* several systems solved with ONE control block (as a long-lived caller would keep it); every earlier solution is checked again
 * after each later solve, and the second system of a chain takes the first one's solution buffers as its right-hand sides */
static void solver_chain(rng_t *r, int nsys)
{
	if (!rep_case("solver chain of %d systems on one control block", nsys)) return;
	enum { MAXQ = 24, MAXP = 40, MAXS = 4 };
	of_linear_binary_code_cb_t cb; memset(&cb, 0, sizeof cb);
	int L = 1 + (int)rng_below(r, 30); cb.encoding_symbol_length = (UINT32)L;
	cb.tmp_tab_symbols = malloc(sizeof(void *) * (MAXP + MAXQ + 8));
	static uint8_t X[MAXS][MAXQ][64]; void *sol[MAXS][MAXQ]; int Q[MAXS]; memset(sol, 0, sizeof sol);
	for (int sidx = 0; sidx < nsys && sidx < MAXS; sidx++) {
		int q = 2 + (int)rng_below(r, MAXQ - 2), p = q + (int)rng_below(r, 6), tries = 0; Q[sidx] = q;
		static uint8_t A[MAXP][MAXQ]; uint64_t rows[MAXP];
		do { for (int i = 0; i < p; i++) { rows[i] = 0; for (int j = 0; j < q; j++) { A[i][j] = (uint8_t)(rng_below(r, 100) < 45); if (A[i][j]) rows[i] |= 1ULL << j; } } } while ((int)gf2_rank(rows, (unsigned)p, 1) < q && ++tries < 200);
		if (tries >= 200) break;
		of_mod2dense *m = of_mod2dense_allocate((UINT32)p, (UINT32)q);
		for (int i = 0; i < p; i++) for (int j = 0; j < q; j++) if (A[i][j]) of_mod2dense_set(m, (UINT32)i, (UINT32)j, 1);
		for (int j = 0; j < q; j++) for (int b = 0; b < L; b++) X[sidx][j][b] = (uint8_t)rng_u64(r);
		void *ct[MAXP], *vt[MAXQ]; memset(vt, 0, sizeof vt);
		for (int i = 0; i < p; i++) { ct[i] = of_calloc(1, (size_t)L); for (int j = 0; j < q; j++) if (A[i][j]) for (int b = 0; b < L; b++) ((uint8_t *)ct[i])[b] ^= X[sidx][j][b]; }
		of_status_t st = of_linear_binary_code_solve_dense_system(&cb, m, ct, vt);
		g_ops++;
		if (st != OF_STATUS_OK) rep_viol("solver-missed", "system %d of a chain (full column rank %dx%d) reported as unsolvable", sidx, p, q);
		else for (int j = 0; j < q; j++) { sol[sidx][j] = vt[j]; if (!vt[j] || memcmp(vt[j], X[sidx][j], (size_t)L)) { rep_viol("solver-wrong", "system %d of a chain on one control block: variable %d differs from the planted solution (%dx%d, L=%d)", sidx, j, p, q, L); break; } }
		for (int i = 0; i < p; i++) { int keep = 0; for (int j = 0; j < q; j++) if (ct[i] && ct[i] == vt[j]) keep = 1; if (ct[i] && !keep) of_free(ct[i]); }
		of_mod2dense_free(m);
		/* every earlier solution must still be what it was */
		for (int e = 0; e < sidx; e++) for (int j = 0; j < Q[e]; j++) if (sol[e][j] && memcmp(sol[e][j], X[e][j], (size_t)L)) { rep_viol("solver-wrong", "the solution of system %d (variable %d) was altered by the solve of system %d on the same control block", e, j, sidx); e = sidx; break; }
		rep_count("solver_chained_systems", 1);
	}
	for (int e = 0; e < MAXS; e++) for (int j = 0; j < MAXQ; j++) if (sol[e][j]) of_free(sol[e][j]);
	free(cb.tmp_tab_symbols);
	rep_case_done(1, 0, 1);
}

int p_c18(void)
{
	int T = g_run.thorough; long unit = 0;
	rep_unit(unit);
	if (rep_unit_mine(unit) && rep_case("popcount helpers: all 2^16 low/high half-words + random words + of_hweight_array lengths 1..200")) {
		rng_t r = rng_make(g_run.seed, 1800, 0); popcounts(&r, T ? 5000000 : 1000000); rep_case_done(1, 0, 1);
	}
	unit++;
	int nunits = 64; long per = T ? 30000 : 1500;
	for (int u = 0; u < nunits; u++, unit++) {
		rep_unit(unit);
		if (!rep_unit_mine(unit)) continue;
		rng_t r = rng_make(g_run.seed, 1810 + (uint64_t)u, 18);
		for (long s = 0; s < per; s++) {
			int len = 10 + (int)rng_below(&r, 120); uint64_t sub = rng_u64(&r);
			if (!rep_case("dense-sequence len=%d index=%ld", len, s)) continue;
			rng_t rr = rng_make(sub, (uint64_t)s, (uint64_t)u);
			dense_sequence(&rr, len);
			rep_case_done(1, 0, 1);
		}
	}
	static const int LS[] = { 1, 3, 4, 7, 8, 16, 33, 64, 1024 };
	long sper = T ? 6000 : 320;
	for (int u = 0; u < nunits; u++, unit++) {
		rep_unit(unit);
		if (!rep_unit_mine(unit)) continue;
		rng_t r = rng_make(g_run.seed, 1880 + (uint64_t)u, 18);
		for (long s = 0; s < sper; s++) {
			int q = COLS[rng_below(&r, NCOLS)]; if (s % 3 == 0) q = 1 + (int)rng_below(&r, 40);
			int pc = (int)rng_below(&r, 4); int p = pc == 0 ? q : pc == 1 ? q + 1 : pc == 2 ? q + 5 : 2 * q;
			int L = LS[rng_below(&r, 9)]; if (q > 64 && L > 64) L = 16;
			int def = (s & 1) ? 1 + (int)rng_below(&r, 3) : 0;
			if (q < 2 && def == 1) def = 2;
			if (q < 3 && def == 3) def = 2;
			uint64_t sub = rng_u64(&r); rng_t rr = rng_make(sub, (uint64_t)s, 99);
			solver_case(&rr, q, p, L, def);
		}
	}
	for (int u = 0; u < 8; u++, unit++) {
		rep_unit(unit);
		if (!rep_unit_mine(unit)) continue;
		rng_t r = rng_make(g_run.seed, 1885 + (uint64_t)u, 18);
		for (int s2 = 0; s2 < (T ? 400 : 40); s2++) solver_chain(&r, 2 + (int)rng_below(&r, 3));
	}
	rep_unit(unit);
	if (rep_unit_mine(unit)) {
		rng_t r = rng_make(g_run.seed, 1887, 18);
		static const int WC[] = { 992, 993, 1023, 1024, 1025, 2048, 4100, 8160, 8192, 16321, 50000 };
		for (unsigned c = 0; c < sizeof WC / sizeof WC[0]; c++) for (int pat = 0; pat < 5; pat++) { if (!T && (WC[c] > 9000 || (WC[c] > 2048 && pat > 1))) continue; wide_case(WC[c], pat, &r); }
	}
	unit++;
	/* tall systems: more equations than a 16-bit row index can address (and the 2^15 line) */
	{
		static const int tall[][3] = { {65537, 24, 16}, {66000, 31, 8}, {70000, 40, 8}, {32769, 33, 4}, {131100, 20, 5}, {65536, 24, 3} };
		for (int t = 0; t < 6; t++, unit++) {
			rep_unit(unit);
			if (!rep_unit_mine(unit)) continue;
			rng_t r = rng_make(g_run.seed, 1890 + (uint64_t)t, 18);
			solver_case(&r, tall[t][1], tall[t][0], tall[t][2], 0);
			if (T || t < 2) { rng_t r2 = rng_make(g_run.seed, 1895 + (uint64_t)t, 18); solver_case(&r2, tall[t][1], tall[t][0], tall[t][2], 1 + t % 3); }
		}
	}
	rep_count("dense_operations", g_ops);
	return 0;
}
