/* Shared declarations of the openfec runtime-monitoring harness (see /verif/DESIGN.md §3). */
#ifndef OFH_COMMON_H
#define OFH_COMMON_H

#include <stdint.h>
#include <stddef.h>
#include <stdio.h>
#include <stdlib.h>
#include <string.h>
#include <stdarg.h>

/* ---- run parameters (parsed from argv in main.c) ---- */
typedef struct {
	const char *prop;     /* "C01" ... */
	int      thorough;    /* 0 quick, 1 thorough */
	uint64_t seed;        /* VERIF_SEED */
	int      shard, nshards;
	long     skip_unit, skip_case;   /* resume strictly after (unit, case); -1 = none */
	long     only_unit, only_case;   /* replay exactly this case; -1 = none */
	int      verbose;
	const char *variant;  /* "asan" / "rel" / "cov" / "memcheck" (informational) */
} run_t;
extern run_t g_run;

/* ---- PRNG of the harness (never the library's) ---- */
typedef struct { uint64_t s; } rng_t;
static inline uint64_t rng_u64(rng_t *r)
{
	uint64_t z = (r->s += 0x9E3779B97F4A7C15ULL);
	z = (z ^ (z >> 30)) * 0xBF58476D1CE4E5B9ULL;
	z = (z ^ (z >> 27)) * 0x94D049BB133111EBULL;
	return z ^ (z >> 31);
}
static inline uint32_t rng_below(rng_t *r, uint32_t n) { return n ? (uint32_t)(rng_u64(r) % n) : 0; }
static inline rng_t rng_make(uint64_t a, uint64_t b, uint64_t c)
{
	rng_t r; r.s = a * 0x9E3779B97F4A7C15ULL ^ (b + 0x1234567) * 0xC2B2AE3D27D4EB4FULL ^ (c + 77) * 0x165667B19E3779F9ULL;
	(void)rng_u64(&r); return r;
}
static inline uint64_t hash64(uint64_t h, uint64_t v)
{
	h ^= v + 0x9E3779B97F4A7C15ULL + (h << 6) + (h >> 2);
	h *= 0xff51afd7ed558ccdULL; h ^= h >> 33;
	return h;
}
uint64_t hash_bytes(const void *p, size_t n, uint64_t h);

/* ---- reporting (report.c) ---- */
void rep_init(void);                       /* dup report fd, silence fd 1/2, map the current-case file */
void rep_unit(long unit);                  /* start of work unit `unit` (resets case counter) */
int  rep_unit_mine(long unit);             /* does this shard own the unit? (also honours only/skip) */
/* Declare the next case. Returns 1 if the case must be executed, 0 if skipped (resume / replay filter).
 * The descriptor is written to the current-case file *before* the case runs. */
int  rep_case(const char *fmt, ...) __attribute__((format(printf, 1, 2)));
void rep_case_done(int nontrivial, uint64_t distinct_key, int key_is_unique_by_construction);
void rep_viol(const char *key, const char *fmt, ...) __attribute__((format(printf, 2, 3)));
void rep_note(const char *fmt, ...) __attribute__((format(printf, 1, 2)));
void rep_inconclusive(const char *fmt, ...) __attribute__((format(printf, 1, 2)));  /* free text into evidence notes */
void rep_count(const char *name, uint64_t add);   /* named counters, summed over shards by the driver */
void rep_max(const char *name, uint64_t v);
void rep_sample(const char *cls);          /* remember the current descriptor as a sample of class `cls` */
void rep_finish(void);                     /* dump counters/samples as S lines */
void rep_fatal(const char *fmt, ...) __attribute__((format(printf, 1, 2), noreturn)); /* harness failure: exit 2 */
const char *rep_curcase(void);
int  rep_is_resume_point(void);
extern int g_report_fd;
extern uint64_t g_viol_total;

#define VLOG(...) do { if (g_run.verbose) { char _b[1024]; int _n = snprintf(_b, sizeof _b, __VA_ARGS__); \
	if (_n > 0) { if (write(g_report_fd, "# ", 2) < 0) {} if (write(g_report_fd, _b, (size_t)(_n < (int)sizeof _b ? _n : (int)sizeof _b - 1)) < 0) {} if (write(g_report_fd, "\n", 1) < 0) {} } } } while (0)

/* ---- property entry points ---- */
int p_c13(void); int p_c14(void); int p_c19(void); int p_c20(void);
int p_codec(void);   /* C01 C02 C03 C04 C07 C08 C10 C11 */
int p_c05(void); int p_c06(void); int p_c09(void); int p_c12(void); int p_c15(void);
int p_c16(void); int p_c17(void); int p_c18(void);
int selftest(void);
int p_c05_child(void);
int p_c12_child(void);

#endif
