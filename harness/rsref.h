/* Reference Reed-Solomon code: systematic generator obtained from the Vandermonde matrix on the points
 * 0,1,a,a^2,... of GF(2^m) by this file's own Gauss-Jordan elimination (gf.c arithmetic). DESIGN.md §3.2 */
#ifndef OFH_RSREF_H
#define OFH_RSREF_H
#include <stdint.h>
/* G: n rows x k columns, row-major; rows 0..k-1 are the identity. Returns 0, or -1 if the top block is singular. */
int  rsref_generator(int m, unsigned k, unsigned n, uint8_t *G);
/* out = sum_i G[esi][i] * src[i] over L bytes; for m=4 every byte holds two independent nibbles */
void rsref_encode_row(int m, const uint8_t *Grow, unsigned k, uint8_t *const *src, unsigned L, uint8_t *out);
/* solve for the k source symbols from k received (esi[], sym[]); returns 0 ok, -1 singular */
int  rsref_decode(int m, const uint8_t *G, unsigned k, const unsigned *esi, uint8_t *const *sym, unsigned L, uint8_t **out);
int  selftest_rsref(void);
#endif
