/* C19 — the RFC 5170 PRNG is the Park-Miller minimal standard (DESIGN.md §5 C19). */
#include "common.h"
#include <pthread.h>
#include "of_openfec_api.h"
#include "of_rand.h"

extern UINT64 of_seed;   /* exported by of_rand.c */

#define PM_M 2147483647ULL
static uint64_t pm_next(uint64_t s) { return (16807ULL * s) % PM_M; }
static uint64_t pm_pow(uint64_t e)
{	/* 16807^e mod (2^31-1): state reached from seed 1 after e steps */
	uint64_t r = 1, b = 16807;
	while (e) { if (e & 1) r = (r * b) % PM_M; b = (b * b) % PM_M; e >>= 1; }
	return r;
}
static uint64_t pm_powb(uint64_t b, uint64_t e)
{
	uint64_t r = 1; b %= PM_M;
	while (e) { if (e & 1) r = (r * b) % PM_M; b = (b * b) % PM_M; e >>= 1; }
	return r;
}
static uint64_t oracle_ret(uint64_t s1, uint64_t maxv)
{	/* the RFC's reference expression, evaluated here */
	return (uint64_t)((double)s1 * (double)maxv / (double)0x7FFFFFFF);
}

static const uint64_t g_maxv[] = { 1, 2, 3, 255, 256, 65535, 65536, 1000000, 12750000 /* 255*50000 */ };

/* one step of the library from state s with bound maxv, checked; returns the new state seen */
static inline uint64_t step(uint64_t s, uint64_t maxv, int *bad)
{
	uint64_t ret = of_rfc5170_rand(maxv);
	uint64_t s1 = pm_next(s);
	if (of_seed != s1) { if (!*bad) rep_viol("prng-state", "from=%llu got=%llu want=%llu", (unsigned long long)s, (unsigned long long)of_seed, (unsigned long long)s1); *bad = 1; }
	if (ret >= maxv) { if (!*bad) rep_viol("prng-range", "state=%llu maxv=%llu ret=%llu", (unsigned long long)s1, (unsigned long long)maxv, (unsigned long long)ret); *bad = 1; }
	if (ret != oracle_ret(s1, maxv)) { if (!*bad) rep_viol("prng-scale", "state=%llu maxv=%llu ret=%llu want=%llu", (unsigned long long)s1, (unsigned long long)maxv, (unsigned long long)ret, (unsigned long long)oracle_ret(s1, maxv)); *bad = 1; }
	if (s1 * maxv < (1ULL << 53)) {
		uint64_t ex = (uint64_t)(((unsigned __int128)s1 * maxv) / PM_M);
		if (ret != ex) { if (!*bad) rep_viol("prng-scale", "exact-floor state=%llu maxv=%llu ret=%llu want=%llu", (unsigned long long)s1, (unsigned long long)maxv, (unsigned long long)ret, (unsigned long long)ex); *bad = 1; }
	}
	return of_seed;
}

static void walk_arc(long unit, uint64_t first_step, uint64_t nsteps, rng_t *rng)
{	/* walk nsteps steps starting from the state after first_step steps from seed 1 */
	uint64_t s0 = pm_pow(first_step);
	if (!rep_case("arc start_step=%llu steps=%llu start_state=%llu", (unsigned long long)first_step, (unsigned long long)nsteps, (unsigned long long)s0)) return;
	of_rfc5170_srand(s0);
	if (of_seed != s0) rep_viol("prng-seed-accept", "valid seed %llu not accepted (state %llu)", (unsigned long long)s0, (unsigned long long)of_seed);
	uint64_t s = s0; int bad = 0; uint64_t mv_i = 0;
	for (uint64_t i = 0; i < nsteps && !bad; i++) {
		uint64_t maxv = (i & 7) ? g_maxv[mv_i++ % (sizeof g_maxv / sizeof g_maxv[0])] : 1 + rng_below(rng, 12750000);
		s = step(s, maxv, &bad);
	}
	uint64_t want = pm_pow(first_step + nsteps);
	if (!bad && s != want) rep_viol("prng-state", "arc end state=%llu want=%llu", (unsigned long long)s, (unsigned long long)want);
	rep_count("prng_steps_checked", nsteps);
	rep_case_done(1, 0, 1);
	(void)unit;
}

/* The generator is one process-wide stream: a seed accepted in one thread governs the draws of any other (the matrix builder is
 * called from whichever thread configures a session). Threads run strictly one after the other here; nothing is concurrent. */
typedef struct { uint64_t start, maxv; int n; uint64_t out[64]; } thr_draw_t;
static void *thr_draw(void *a) { thr_draw_t *t = a; for (int i = 0; i < t->n; i++) t->out[i] = of_rfc5170_rand(t->maxv); return NULL; }
static void *thr_seed(void *a) { thr_draw_t *t = a; of_rfc5170_srand(t->start); return NULL; }
static void cross_thread_case(uint64_t seed, uint64_t maxv)
{
	if (!rep_case("one stream across threads seed=%llu maxv=%llu", (unsigned long long)seed, (unsigned long long)maxv)) return;
	thr_draw_t t = { seed, maxv, 48, { 0 } }; pthread_t th; uint64_t s = seed; int bad = 0;
	/* seeded here, first draws in another thread, next draws here, seeded there, drawn here */
	of_rfc5170_srand(seed);
	if (pthread_create(&th, NULL, thr_draw, &t)) rep_fatal("pthread_create"); pthread_join(th, NULL);
	for (int i = 0; i < t.n; i++) { s = pm_next(s); if (t.out[i] != oracle_ret(s, maxv)) { bad = 1; rep_viol("prng-state", "draw %d made by a second thread after of_rfc5170_srand(%llu) in the first: got %llu, the stream gives %llu", i, (unsigned long long)seed, (unsigned long long)t.out[i], (unsigned long long)oracle_ret(s, maxv)); break; } }
	for (int i = 0; i < 16 && !bad; i++) { s = pm_next(s); uint64_t v = of_rfc5170_rand(maxv); if (v != oracle_ret(s, maxv)) { bad = 1; rep_viol("prng-state", "the stream continued in the first thread after %d draws in a second one: got %llu want %llu", t.n, (unsigned long long)v, (unsigned long long)oracle_ret(s, maxv)); } }
	t.start = seed ^ 0x2A; if (t.start < 1 || t.start > 2147483646ULL) t.start = 7;
	if (pthread_create(&th, NULL, thr_seed, &t)) rep_fatal("pthread_create"); pthread_join(th, NULL);
	s = t.start;
	for (int i = 0; i < 16 && !bad; i++) { s = pm_next(s); uint64_t v = of_rfc5170_rand(maxv); if (v != oracle_ret(s, maxv)) { bad = 1; rep_viol("prng-seed-accept", "seed %llu accepted in a second thread does not govern the draws of the first: got %llu want %llu", (unsigned long long)t.start, (unsigned long long)v, (unsigned long long)oracle_ret(s, maxv)); } }
	rep_count("cross_thread_stream_checks", 1);
	rep_case_done(1, 0, 1);
}

/* a refused seed leaves the generator exactly where it was, also in the middle of a stream */
static void refusal_midstream_case(uint64_t seed, int ndraws, uint64_t badseed, uint64_t maxv)
{
	if (!rep_case("refused seed %llu after %d draws from seed %llu", (unsigned long long)badseed, ndraws, (unsigned long long)seed)) return;
	uint64_t s = seed; int bad = 0;
	of_rfc5170_srand(seed);
	for (int i = 0; i < ndraws && !bad; i++) { s = pm_next(s); if (of_rfc5170_rand(maxv) != oracle_ret(s, maxv)) { bad = 1; rep_viol("prng-state", "draw %d after seed %llu", i, (unsigned long long)seed); } }
	of_rfc5170_srand(badseed);
	for (int i = 0; i < 8 && !bad; i++) { s = pm_next(s); uint64_t v = of_rfc5170_rand(maxv); if (v != oracle_ret(s, maxv)) { bad = 1; rep_viol("prng-seed-accept", "out-of-range seed %llu given after %d draws changed the stream: draw %d is %llu, the stream gives %llu", (unsigned long long)badseed, ndraws, i, (unsigned long long)v, (unsigned long long)oracle_ret(s, maxv)); } }
	rep_count("refused_seeds_in_mid_stream", 1);
	rep_case_done(1, 0, 1);
}

int p_c19(void)
{
	long unit = 0;
	rng_t rng = rng_make(g_run.seed, 19, 0);
	/* unit 0: landmarks and seeding */
	rep_unit(unit);
	if (rep_unit_mine(unit)) {
		if (rep_case("landmark 10000th state after seed 1")) {
			of_rfc5170_srand(1);
			if (of_seed != 1) rep_viol("prng-seed-accept", "seed 1 not accepted");
			uint64_t s = 1; int bad = 0;
			static const uint64_t first[] = { 16807, 282475249, 1622650073, 984943658, 1144108930, 470211272, 101027544, 1457850878, 1458777923, 2007237709 };
			for (int i = 1; i <= 10000 && !bad; i++) {
				s = step(s, 0x7FFFFFFF, &bad);
				if (i <= 10 && s != first[i - 1]) { rep_viol("prng-state", "published value %d: got %llu want %llu", i, (unsigned long long)s, (unsigned long long)first[i - 1]); bad = 1; }
			}
			if (!bad && s != 1043618065ULL) rep_viol("prng-state", "10000th state %llu != 1043618065", (unsigned long long)s);
			rep_count("prng_steps_checked", 10000);
			rep_case_done(1, 0, 1);
		}
		/* seeding accepts exactly 1..2^31-2 */
		static const uint64_t seeds[] = { 0, 1, 2, 16807, 0x7FFFFFFDULL, 0x7FFFFFFEULL, 0x7FFFFFFFULL, 0x80000000ULL, 0xFFFFFFFFULL, 0x100000000ULL, 0x100000001ULL, 1ULL << 63, ~0ULL };
		for (unsigned i = 0; i < sizeof seeds / sizeof seeds[0]; i++) {
			if (!rep_case("srand seed=%llu", (unsigned long long)seeds[i])) continue;
			of_rfc5170_srand(12345);
			of_rfc5170_srand(seeds[i]);
			int valid = seeds[i] >= 1 && seeds[i] <= 0x7FFFFFFEULL;
			if (valid && of_seed != seeds[i]) rep_viol("prng-seed-accept", "valid seed %llu rejected (state %llu)", (unsigned long long)seeds[i], (unsigned long long)of_seed);
			if (!valid && of_seed != 12345) rep_viol("prng-seed-accept", "invalid seed %llu changed the state to %llu", (unsigned long long)seeds[i], (unsigned long long)of_seed);
			rep_case_done(1, 0, 1);
		}
		for (int i = 0; i < 2000; i++) {
			uint64_t sd = (i & 1) ? rng_u64(&rng) : rng_u64(&rng) >> (rng_below(&rng, 40) + 1);
			if (!rep_case("srand-random seed=%llu", (unsigned long long)sd)) continue;
			of_rfc5170_srand(777);
			of_rfc5170_srand(sd);
			int valid = sd >= 1 && sd <= 0x7FFFFFFEULL;
			if (valid ? of_seed != sd : of_seed != 777) rep_viol("prng-seed-accept", "seed %llu valid=%d state=%llu", (unsigned long long)sd, valid, (unsigned long long)of_seed);
			rep_case_done(1, sd, 0);
		}
	}
	unit++;
	/* random (state, maxv) pairs, including the extreme maxv values */
	int npairs_units = 16, pairs_per = g_run.thorough ? 2000000 : 200000;
	for (int u = 0; u < npairs_units; u++, unit++) {
		rep_unit(unit);
		if (!rep_unit_mine(unit)) continue;
		rng_t r2 = rng_make(g_run.seed, 1900 + u, 1);
		if (!rep_case("random-pairs block=%d pairs=%d", u, pairs_per)) continue;
		int bad = 0;
		for (int i = 0; i < pairs_per && !bad; i++) {
			uint64_t s = 1 + rng_u64(&r2) % (PM_M - 1);
			uint64_t maxv;
			switch (rng_below(&r2, 6)) {
			case 0: maxv = g_maxv[rng_below(&r2, sizeof g_maxv / sizeof g_maxv[0])]; break;
			case 1: maxv = 1 + rng_below(&r2, 50000); break;
			case 2: maxv = 12750000 - rng_below(&r2, 1000); break;
			default: maxv = 1 + rng_below(&r2, 12750000); break;
			}
			of_rfc5170_srand(s);
			if (of_seed != s) { rep_viol("prng-seed-accept", "valid seed %llu rejected", (unsigned long long)s); bad = 1; break; }
			step(s, maxv, &bad);
		}
		rep_count("prng_steps_checked", (uint64_t)pairs_per);
		rep_case_done(1, 0, 1);
	}
	/* the walk: quick = 2e8 steps from seed 1 in 16 arcs; thorough = the whole cycle (2^31-2 steps) in 64 arcs */
	uint64_t total = g_run.thorough ? (PM_M - 1) : 200000000ULL;
	int narcs = g_run.thorough ? 64 : 16;
	uint64_t per = total / narcs;
	for (int a = 0; a < narcs; a++, unit++) {
		rep_unit(unit);
		if (!rep_unit_mine(unit)) continue;
		uint64_t first = per * a, n = (a == narcs - 1) ? total - first : per;
		rng_t r3 = rng_make(g_run.seed, 1950 + a, 2);
		walk_arc(unit, first, n, &r3);
	}
	/* reduction-boundary states: the split multiplication folds a carry when the 32-bit partial sum exceeds 2^31-1; the states whose
	 * successor is within 4096 of either end of 1..2^31-2 sit on both sides of that test (the successor 1 is reached only from the
	 * single state 16807^-1 = 1407677000, 3 steps before the end of the cycle). They are constructed by modular inverse. */
	rep_unit(unit);
	if (rep_unit_mine(unit) && rep_case("reduction-boundary states: successors 1..4096 and 2^31-1-4096..2^31-2")) {
		uint64_t inv16807 = pm_powb(16807, PM_M - 2); int bad = 0; uint64_t nb = 0;
		for (int side = 0; side < 2 && !bad; side++) for (uint64_t d = 1; d <= 4096 && !bad; d++) {
			uint64_t s1 = side ? PM_M - d : d, s0 = (s1 * inv16807) % PM_M;
			for (unsigned mi = 0; mi < sizeof g_maxv / sizeof g_maxv[0] && !bad; mi++) {
				of_rfc5170_srand(s0);
				if (of_seed != s0) { rep_viol("prng-seed-accept", "valid seed %llu rejected", (unsigned long long)s0); bad = 1; break; }
				step(s0, g_maxv[mi], &bad); nb++;
			}
			/* and the two steps that follow, so that a state left outside 1..2^31-2 cannot go unnoticed */
			if (!bad) { uint64_t s = s1; s = step(s, 0x7FFFFFFF, &bad); if (!bad) step(s, 65536, &bad); }
		}
		rep_count("reduction_boundary_steps_checked", nb);
		rep_count("prng_steps_checked", nb);
		rep_case_done(1, 0, 1);
	}
	unit++;
	/* the last million steps of the cycle (quick walks the first 2e8 only) */
	rep_unit(unit);
	if (rep_unit_mine(unit)) { rng_t r4 = rng_make(g_run.seed, 1999, 3); walk_arc(unit, PM_M - 1 - 1000000, 1000000, &r4); }
	unit++;
	/* rounding-sensitive pairs: states s' with s'*maxv = -r or +r (mod 2^31-1) for small r and s'*maxv >= 2^53 are exactly
	 * where the RFC's double expression and an exact integer floor can disagree; they are constructed (modular inverse),
	 * the library is seeded one step before, and its return value is compared with the double expression. Random sampling
	 * meets such a pair with probability ~1e-10, so they are generated on purpose. */
	{
		uint32_t lo = 1u << 22, hi = 12750000, stride = g_run.thorough ? 1 : 16; int nu = 32;
		uint32_t span = (hi - lo) / (uint32_t)nu + 1;
		uint64_t inv16807 = pm_powb(16807, PM_M - 2);
		for (int u = 0; u < nu; u++, unit++) {
			rep_unit(unit);
			if (!rep_unit_mine(unit)) continue;
			uint32_t a = lo + (uint32_t)u * span, b = a + span > hi ? hi + 1 : a + span;
			if (!rep_case("rounding-sensitive pairs maxv=%u..%u stride=%u r=-16..16", a, b - 1, stride)) continue;
			int bad = 0; uint64_t npairs = 0, differ = 0;
			for (uint32_t maxv = a + (g_run.seed % stride); maxv < b && !bad; maxv += stride) {
				uint64_t invm = pm_powb(maxv, PM_M - 2);
				for (int r = -16; r <= 16 && !bad; r++) {
					if (!r) continue;
					uint64_t s1 = ((r < 0 ? PM_M - (uint64_t)(-r) : (uint64_t)r) * invm) % PM_M;     /* s1*maxv = r (mod p) */
					if (!s1) continue;
					uint64_t s0 = (s1 * inv16807) % PM_M;
					of_rfc5170_srand(s0);
					uint64_t ret = of_rfc5170_rand(maxv);
					if (of_seed != s1) { rep_viol("prng-state", "from=%llu got=%llu want=%llu", (unsigned long long)s0, (unsigned long long)of_seed, (unsigned long long)s1); bad = 1; break; }
					uint64_t want = oracle_ret(s1, maxv), ex = (uint64_t)(((unsigned __int128)s1 * maxv) / PM_M);
					if (ret != want) { rep_viol("prng-scale", "rounding-sensitive pair: state=%llu maxv=%u ret=%llu, RFC double expression gives %llu (exact floor %llu)", (unsigned long long)s1, maxv, (unsigned long long)ret, (unsigned long long)want, (unsigned long long)ex); bad = 1; break; }
					if (ret >= maxv) { rep_viol("prng-range", "state=%llu maxv=%u ret=%llu", (unsigned long long)s1, maxv, (unsigned long long)ret); bad = 1; break; }
					npairs++; if (want != ex) differ++;
				}
			}
			rep_count("rounding_sensitive_pairs_checked", npairs);
			rep_count("pairs_where_the_double_expression_differs_from_the_exact_floor", differ);
			rep_case_done(1, 0, 1);
		}
	}
	rep_unit(unit);
	if (rep_unit_mine(unit)) {
		rng_t r = rng_make(g_run.seed, 1990, 0);
		static const uint64_t mv[] = { 2, 255, 65536, 12750000, 2147483647ULL };
		static const uint64_t badseeds[] = { 0, 2147483647ULL, 2147483648ULL, 4294967296ULL + 5, 18446744073709551615ULL };
		for (int i = 0; i < (g_run.thorough ? 400 : 40); i++) refusal_midstream_case(i == 0 ? 1 : 1 + rng_below(&r, 2147483646u), i == 0 ? 9999 : 1 + (int)rng_below(&r, 50), badseeds[i % 5], mv[i % 5]);
		for (int i = 0; i < (g_run.thorough ? 200 : 20); i++) cross_thread_case(i == 0 ? 1 : i == 1 ? 2147483646ULL : 1 + rng_below(&r, 2147483646u), mv[i % 5]);
	}
	unit++;
	if (g_run.thorough) {
		rep_unit(unit);
		if (rep_unit_mine(unit) && rep_case("cycle-length 16807^(2^31-2) == 1 (closing state of the last arc equals seed 1)")) {
			if (pm_pow(PM_M - 1) != 1) rep_fatal("oracle: 16807 is not of order dividing 2^31-2?");
			rep_count("full_cycle_walked", 1);
			rep_case_done(1, 0, 1);
		}
	}
	return 0;
}
