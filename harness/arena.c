#define _GNU_SOURCE
#include "common.h"
#include "arena.h"
#include <unistd.h>
#include <signal.h>
#include <sys/mman.h>
#include <execinfo.h>
#include <ucontext.h>

typedef struct {
	uint8_t *base; size_t maplen;     /* rel: mapping incl. guards; asan: malloc block */
	uint8_t *p; size_t len; int role; long tag; int ro; uint64_t sum; int live;
} slot_t;
static slot_t *g_slots; static size_t g_nslots, g_capslots, g_freehint;
static uint64_t g_bytes;

/* pointer -> slot index hash (open addressing, tombstone-free: rebuilt on growth, deletions re-insert the cluster) */
static uint32_t *g_ht; static size_t g_htcap, g_htn;
static size_t ht_pos(const void *p) { return (size_t)(((uintptr_t)p >> 3) * 0x9E3779B97F4A7C15ULL >> 17) & (g_htcap - 1); }
static void ht_put(const void *p, uint32_t idx)
{
	size_t j = ht_pos(p);
	while (g_ht[j]) j = (j + 1) & (g_htcap - 1);
	g_ht[j] = idx + 1; g_htn++;
}
static void ht_grow(void)
{
	g_htcap = g_htcap ? g_htcap * 2 : 4096;
	free(g_ht); g_ht = calloc(g_htcap, sizeof *g_ht); g_htn = 0;
	if (!g_ht) rep_fatal("arena: out of memory (hash)");
	for (size_t i = 0; i < g_nslots; i++) if (g_slots[i].live) ht_put(g_slots[i].p, (uint32_t)i);
}
static void ht_del(const void *p)
{
	size_t j = ht_pos(p);
	while (g_ht[j] && g_slots[g_ht[j] - 1].p != p) j = (j + 1) & (g_htcap - 1);
	if (!g_ht[j]) return;
	g_ht[j] = 0; g_htn--;
	for (j = (j + 1) & (g_htcap - 1); g_ht[j]; j = (j + 1) & (g_htcap - 1)) {
		uint32_t v = g_ht[j]; g_ht[j] = 0; g_htn--; ht_put(g_slots[v - 1].p, v - 1);
	}
}
static slot_t *slot_new(void)
{
	slot_t *s = NULL;
	for (size_t i = g_freehint; i < g_nslots; i++) if (!g_slots[i].live) { g_freehint = i + 1; s = &g_slots[i]; break; }
	if (!s) {
		if (g_nslots == g_capslots) {
			g_capslots = g_capslots ? g_capslots * 2 : 1024;
			g_slots = realloc(g_slots, g_capslots * sizeof *g_slots);
			if (!g_slots) rep_fatal("arena: out of memory (slots)");
		}
		g_freehint = g_nslots + 1;
		s = &g_slots[g_nslots++];
	}
	memset(s, 0, sizeof *s);
	return s;
}
static void slot_publish(slot_t *s)
{
	s->live = 1;
	if ((g_htn + 1) * 2 > g_htcap) ht_grow();   /* ht_grow re-inserts every live slot, including s */
	else ht_put(s->p, (uint32_t)(s - g_slots));
}
static void slot_retire(slot_t *s)
{
	ht_del(s->p); s->live = 0;
	if ((size_t)(s - g_slots) < g_freehint) g_freehint = (size_t)(s - g_slots);
}
static slot_t *slot_find(const void *p)
{
	if (!g_htcap) return NULL;
	size_t j = ht_pos(p);
	while (g_ht[j]) { slot_t *s = &g_slots[g_ht[j] - 1]; if (s->p == p && s->live) return s; j = (j + 1) & (g_htcap - 1); }
	return NULL;
}
int ar_owns(const void *p)
{
	const uint8_t *q = p;
	for (size_t i = 0; i < g_nslots; i++) if (g_slots[i].live && q >= g_slots[i].p && q < g_slots[i].p + (g_slots[i].len ? g_slots[i].len : 1)) return 1;
	return 0;
}
uint64_t ar_bytes_protected(void) { return g_bytes; }

#if defined(OFH_ASAN) || defined(OFH_PLAIN)
/* ---------------- sanitizer / valgrind variant: exact-size heap blocks ---------------- */
#ifdef OFH_ASAN
const char *ar_variant = "asan-exact-heap";
#else
const char *ar_variant = "plain-exact-heap";
#endif
void ar_init(void) {}
void *ar_alloc(size_t len, unsigned align, int role, long tag)
{
	slot_t *s = slot_new();
	s->maplen = len + (align & 7);
	s->base = malloc(s->maplen);
	if (!s->base) rep_fatal("arena: out of memory");
	s->p = s->base + (align & 7); s->len = len; s->role = role; s->tag = tag; s->ro = 0;
	slot_publish(s);
	g_bytes += len;
	return s->p;
}
void ar_free(void *p) { slot_t *s = slot_find(p); if (!s) rep_fatal("arena: free of unknown %p", p); free(s->base); slot_retire(s); }
void ar_ro(void *p) { slot_t *s = slot_find(p); if (!s) rep_fatal("arena: ro of unknown %p", p); s->ro = 1; s->sum = hash_bytes(s->p, s->len, 7); }
void ar_rw(void *p) { slot_t *s = slot_find(p); if (s) s->ro = 0; }
int ar_check(void *p) { slot_t *s = slot_find(p); if (!s) return 0; return s->ro && hash_bytes(s->p, s->len, 7) != s->sum; }
#else
/* ---------------- production-flag variant: guard pages, PROT_READ, fault handler ---------------- */
const char *ar_variant = "rel-guard-pages";
#define PG 4096u
#define NPOOL 8
static struct { uint8_t *base[256]; int n; } g_pool[NPOOL];   /* free mappings by data-page count */

static void emit_fault(const char *kind, void *addr, void *rip, const char *what)
{
	char buf[5200]; void *bt[24]; int nbt = backtrace(bt, 24);
	int n = snprintf(buf, sizeof buf, "X\t%s\t%p\t", kind, rip);
	for (int i = 0; i < nbt && n < 600; i++) n += snprintf(buf + n, sizeof buf - (size_t)n, "%p ", bt[i]);
	n += snprintf(buf + n, sizeof buf - (size_t)n, "\t%s\taddr=%p %s\n", rep_curcase(), addr, what);
	if (write(g_report_fd, buf, (size_t)n) < 0) {}
}
static void on_fault(int sig, siginfo_t *si, void *ucv)
{
	ucontext_t *uc = ucv; uint8_t *a = si->si_addr; char what[200] = "";
	void *rip = (void *)uc->uc_mcontext.gregs[REG_RIP];
	int is_write = (uc->uc_mcontext.gregs[REG_ERR] & 2) != 0;
	const char *kind = NULL;
	if (sig == SIGSEGV || sig == SIGBUS) {
		for (size_t i = 0; i < g_nslots; i++) {
			slot_t *s = &g_slots[i];
			if (!s->live || a < s->base || a >= s->base + s->maplen) continue;
			if (a >= s->p && a < s->p + s->len) kind = (s->ro && is_write) ? "trap:write-ro" : "trap:protected";
			else kind = is_write ? "trap:oob-write" : "trap:oob-read";
			snprintf(what, sizeof what, "role=%d tag=%ld off=%ld len=%zu %s", s->role, s->tag, (long)(a - s->p), s->len, is_write ? "write" : "read");
			break;
		}
	}
	if (!kind) { kind = sig == SIGSEGV ? "crash:SIGSEGV" : sig == SIGBUS ? "crash:SIGBUS" : sig == SIGFPE ? "crash:SIGFPE" : sig == SIGILL ? "crash:SIGILL" : "crash:SIGABRT";
		snprintf(what, sizeof what, "%s", is_write ? "write" : "read"); }
	emit_fault(kind, a, rip, what);
	_exit(40);
}
void ar_init(void)
{
	static uint8_t altstack[65536];
	stack_t ss = { .ss_sp = altstack, .ss_size = sizeof altstack, .ss_flags = 0 };
	sigaltstack(&ss, NULL);
	struct sigaction sa; memset(&sa, 0, sizeof sa);
	sa.sa_sigaction = on_fault; sa.sa_flags = SA_SIGINFO | SA_ONSTACK | SA_NODEFER;
	sigaction(SIGSEGV, &sa, NULL); sigaction(SIGBUS, &sa, NULL); sigaction(SIGFPE, &sa, NULL);
	sigaction(SIGILL, &sa, NULL); sigaction(SIGABRT, &sa, NULL);
	void *bt[4]; backtrace(bt, 4);          /* force libgcc to be loaded before any fault */
}
void *ar_alloc(size_t len, unsigned align, int role, long tag)
{
	(void)align;
	size_t pages = (len + PG - 1) / PG; if (!pages) pages = 1;
	slot_t *s = slot_new();
	uint8_t *base = NULL;
	if (pages <= NPOOL && g_pool[pages - 1].n) base = g_pool[pages - 1].base[--g_pool[pages - 1].n];
	else {
		base = mmap(NULL, (pages + 2) * PG, PROT_NONE, MAP_PRIVATE | MAP_ANONYMOUS, -1, 0);
		if (base == MAP_FAILED) rep_fatal("arena: mmap failed (%zu pages)", pages);
		if (mprotect(base + PG, pages * PG, PROT_READ | PROT_WRITE)) rep_fatal("arena: mprotect failed");
	}
	s->base = base; s->maplen = (pages + 2) * PG;
	s->p = base + PG + pages * PG - len;       /* flush against the trailing guard page */
	s->len = len; s->role = role; s->tag = tag; s->ro = 0;
	slot_publish(s);
	memset(base + PG, 0xC5, pages * PG - len);  /* canary in the slack before the buffer */
	g_bytes += len;
	return s->p;
}
static int canary_ok(slot_t *s)
{
	for (uint8_t *q = s->base + PG; q < s->p; q++) if (*q != 0xC5) return 0;
	return 1;
}
void ar_free(void *p)
{
	slot_t *s = slot_find(p); if (!s) rep_fatal("arena: free of unknown %p", p);
	size_t pages = s->maplen / PG - 2;
	if (s->ro) mprotect(s->base + PG, pages * PG, PROT_READ | PROT_WRITE);
	if (pages <= NPOOL && g_pool[pages - 1].n < 256) g_pool[pages - 1].base[g_pool[pages - 1].n++] = s->base;
	else munmap(s->base, s->maplen);
	slot_retire(s);
}
void ar_ro(void *p)
{
	slot_t *s = slot_find(p); if (!s) rep_fatal("arena: ro of unknown %p", p);
	s->ro = 1; s->sum = hash_bytes(s->p, s->len, 7);
	mprotect(s->base + PG, s->maplen - 2 * PG, PROT_READ);
}
void ar_rw(void *p) { slot_t *s = slot_find(p); if (s && s->ro) { s->ro = 0; mprotect(s->base + PG, s->maplen - 2 * PG, PROT_READ | PROT_WRITE); } }
int ar_check(void *p) { slot_t *s = slot_find(p); if (!s) return 0; if (!canary_ok(s)) return 1; return s->ro && hash_bytes(s->p, s->len, 7) != s->sum; }
#endif
