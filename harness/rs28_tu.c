/* Translation-unit inclusion of the repository's RS GF(2^8) core so that its static tables and the
 * static kernel of_addmul1 can be observed without a source hook (DESIGN.md §3.1). The exported
 * functions of that file are renamed on the compiler command line (-Dof_rs_new=tu_of_rs_new ...) so
 * that this copy does not clash with the normally compiled library object. */
#include "lib_stable/reed-solomon_gf_2_8/of_reed-solomon_gf_2_8.c"

#include "rs28_tu.h"

void tu_rs28_init(void) { of_rs_init(); }
const unsigned char *tu_rs28_exp(unsigned *len) { *len = sizeof of_rs_gf_exp / sizeof of_rs_gf_exp[0]; return of_rs_gf_exp; }
const int *tu_rs28_log(unsigned *len) { *len = sizeof of_rs_gf_log / sizeof of_rs_gf_log[0]; return of_rs_gf_log; }
const unsigned char *tu_rs28_inv(unsigned *len) { *len = sizeof of_rs_inverse / sizeof of_rs_inverse[0]; return of_rs_inverse; }
const unsigned char *tu_rs28_mul(unsigned *rows, unsigned *cols)
{
	*rows = sizeof of_gf_mul_table / sizeof of_gf_mul_table[0];
	*cols = sizeof of_gf_mul_table[0] / sizeof of_gf_mul_table[0][0];
	return &of_gf_mul_table[0][0];
}
void tu_rs28_addmul1(unsigned char *dst, unsigned char *src, unsigned char c, int sz) { of_addmul1(dst, src, c, sz); }
