/* Translation-unit inclusion of the repository's RS GF(2^8) core so that its static tables and the
 * static kernel of_addmul1 can be observed without a source hook (DESIGN.md §3.1). The exported
 * functions of that file are renamed on the compiler command line (-Dof_rs_new=tu_of_rs_new ...) so
 * that this copy does not clash with the normally compiled library object. */
#include "lib_stable/reed-solomon_gf_2_8/of_reed-solomon_gf_2_8.c"

#include "rs28_tu.h"

void tu_rs28_init(void) { of_rs_init(); }
const unsigned char *tu_rs28_exp(unsigned *len) { *len = sizeof of_rs_gf_exp / sizeof of_rs_gf_exp[0]; return of_rs_gf_exp; }
const int *tu_rs28_log(unsigned *len) { *len = sizeof of_rs_gf_log / sizeof of_rs_gf_log[0]; return of_rs_gf_log; }
const unsigned char *tu_rs28_inv(unsigned *len) { *len = sizeof of_rs_inverse / sizeof of_rs_inverse[0]; return of_rs_inverse; }
const unsigned char *tu_rs28_mul(unsigned *rows, unsigned *cols)
{
	*rows = sizeof of_gf_mul_table / sizeof of_gf_mul_table[0];
	*cols = sizeof of_gf_mul_table[0] / sizeof of_gf_mul_table[0][0];
	return &of_gf_mul_table[0][0];
}
void tu_rs28_addmul1(unsigned char *dst, unsigned char *src, unsigned char c, int sz) { of_addmul1(dst, src, c, sz); }

/* codec activity on this copy of the file: codes created, every repair symbol built, decoded from the k source packets
 * themselves (the decoding matrix is then the identity) and from mixes of source and repair packets; returns the number of
 * decodes that did not give the sources back */
unsigned tu_rs28_activity(unsigned seed)
{
	unsigned bad = 0; unsigned long long x = seed * 2654435761ULL + 12345;
	for (unsigned k = 24; k >= 1; k--) for (unsigned r = 7; r >= 1 && r <= 7; r -= 2) {        /* descending sizes, and for each code the identity decode last */
		unsigned n = k + r; void *code = of_rs_new(k, n); if (!code) { bad++; continue; }
		unsigned char src[24][16], rep[8][16], work[24][16]; void *sp[24], *pk[24]; int idx[24];
		for (unsigned i = 0; i < k; i++) { for (unsigned b = 0; b < 16; b++) { x = x * 6364136223846793005ULL + 1442695040888963407ULL; src[i][b] = (unsigned char)(x >> 33); } sp[i] = src[i]; }
		for (unsigned j = 0; j < r; j++) of_rs_encode(code, sp, rep[j], (int)(k + j), 16);
		for (int round = 2; round >= 0; round--) {
			for (unsigned i = 0; i < k; i++) { memcpy(work[i], src[i], 16); pk[i] = work[i]; idx[i] = (int)i; }
			if (round) for (unsigned j = 0; j < r && j < k; j++) { unsigned pos = (unsigned)((x >> (8 + j)) % k); x = x * 6364136223846793005ULL + 1; if (idx[pos] == (int)pos) { memcpy(work[pos], rep[j], 16); idx[pos] = (int)(k + j); } }
			if (of_rs_decode(code, pk, idx, 16) != OF_STATUS_OK) { bad++; continue; }
			for (unsigned i = 0; i < k; i++) if (memcmp(pk[i], src[i], 16)) { bad++; break; }
		}
		of_rs_free(code);
	}
	return bad;
}
