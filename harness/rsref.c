#include "rsref.h"
#include "gf.h"
#include <stdlib.h>
#include <string.h>

static uint8_t T8[256][256], T4[16][16], I8[256], I4[16]; static int g_init;
static void init(void)
{
	if (g_init) return;
	for (unsigned a = 0; a < 256; a++) { for (unsigned b = 0; b < 256; b++) T8[a][b] = (uint8_t)gfo_mul(8, a, b); I8[a] = a ? (uint8_t)gfo_inv(8, a) : 0; }
	for (unsigned a = 0; a < 16; a++) { for (unsigned b = 0; b < 16; b++) T4[a][b] = (uint8_t)gfo_mul(4, a, b); I4[a] = a ? (uint8_t)gfo_inv(4, a) : 0; }
	g_init = 1;
}
static inline uint8_t mul(int m, uint8_t a, uint8_t b) { return m == 4 ? T4[a & 15][b & 15] : T8[a][b]; }
static inline uint8_t inv(int m, uint8_t a) { return m == 4 ? I4[a & 15] : I8[a]; }

/* in-place inversion of a k x k matrix by Gauss-Jordan with an explicit identity companion; -1 if singular */
static int invert(int m, uint8_t *A, unsigned k)
{
	uint8_t *B = calloc((size_t)k * k + 1, 1);
	for (unsigned i = 0; i < k; i++) B[i * k + i] = 1;
	for (unsigned c = 0; c < k; c++) {
		unsigned p = c;
		while (p < k && !A[p * k + c]) p++;
		if (p == k) { free(B); return -1; }
		if (p != c) for (unsigned j = 0; j < k; j++) {
			uint8_t t = A[p * k + j]; A[p * k + j] = A[c * k + j]; A[c * k + j] = t;
			t = B[p * k + j]; B[p * k + j] = B[c * k + j]; B[c * k + j] = t;
		}
		uint8_t iv = inv(m, A[c * k + c]);
		for (unsigned j = 0; j < k; j++) { A[c * k + j] = mul(m, A[c * k + j], iv); B[c * k + j] = mul(m, B[c * k + j], iv); }
		for (unsigned r = 0; r < k; r++) if (r != c && A[r * k + c]) {
			uint8_t f = A[r * k + c];
			for (unsigned j = 0; j < k; j++) { A[r * k + j] ^= mul(m, f, A[c * k + j]); B[r * k + j] ^= mul(m, f, B[c * k + j]); }
		}
	}
	memcpy(A, B, (size_t)k * k); free(B);
	return 0;
}

int rsref_generator(int m, unsigned k, unsigned n, uint8_t *G)
{
	init();
	unsigned q1 = (1u << m) - 1;
	uint8_t *V = calloc((size_t)n * k + 1, 1), *Vi = malloc((size_t)k * k + 1);
	for (unsigned r = 0; r < n; r++)
		for (unsigned c = 0; c < k; c++) {
			if (r == 0) V[c] = c == 0;                                  /* point 0: 0^0 = 1, 0^c = 0 */
			else V[r * k + c] = (uint8_t)gfo_exp(m, (unsigned)(((uint64_t)(r - 1) * c) % q1));   /* point a^(r-1) */
		}
	memcpy(Vi, V, (size_t)k * k);
	if (invert(m, Vi, k)) { free(V); free(Vi); return -1; }
	for (unsigned r = 0; r < n; r++)
		for (unsigned c = 0; c < k; c++) {
			uint8_t s = 0;
			for (unsigned j = 0; j < k; j++) s ^= mul(m, V[r * k + j], Vi[j * k + c]);
			G[r * k + c] = s;
		}
	free(V); free(Vi);
	return 0;
}

void rsref_encode_row(int m, const uint8_t *Grow, unsigned k, uint8_t *const *src, unsigned L, uint8_t *out)
{
	init();
	memset(out, 0, L);
	for (unsigned i = 0; i < k; i++) {
		uint8_t c = Grow[i]; if (!c) continue;
		const uint8_t *s = src[i];
		if (m == 8) for (unsigned b = 0; b < L; b++) out[b] ^= T8[c][s[b]];
		else for (unsigned b = 0; b < L; b++) out[b] ^= (uint8_t)((T4[c][s[b] >> 4] << 4) | T4[c][s[b] & 15]);
	}
}

int rsref_decode(int m, const uint8_t *G, unsigned k, const unsigned *esi, uint8_t *const *sym, unsigned L, uint8_t **out)
{
	init();
	uint8_t *A = malloc((size_t)k * k + 1);
	for (unsigned i = 0; i < k; i++) memcpy(A + (size_t)i * k, G + (size_t)esi[i] * k, k);
	if (invert(m, A, k)) { free(A); return -1; }
	for (unsigned i = 0; i < k; i++) rsref_encode_row(m, A + (size_t)i * k, k, sym, L, out[i]);
	free(A);
	return 0;
}

int selftest_rsref(void)
{
	init();
	/* brute-force MDS over GF(16): every k-subset of the n rows of G is invertible, for all k<n<=8 (and n=15 spot checks) */
	for (unsigned n = 2; n <= 8; n++) for (unsigned k = 1; k < n; k++) {
		uint8_t G[8 * 8];
		if (rsref_generator(4, k, n, G)) return 1;
		for (unsigned i = 0; i < k; i++) for (unsigned j = 0; j < k; j++) if (G[i * k + j] != (i == j)) return 2;
		for (unsigned mask = 0; mask < (1u << n); mask++) {
			if ((unsigned)__builtin_popcount(mask) != k) continue;
			uint8_t A[64]; unsigned r = 0;
			for (unsigned i = 0; i < n; i++) if (mask >> i & 1) { memcpy(A + r * k, G + i * k, k); r++; }
			if (invert(4, A, k)) return 3;
		}
	}
	/* encode -> erase -> decode round trip, m=8 and m=4 */
	for (int m = 4; m <= 8; m += 4) {
		unsigned n = m == 4 ? 15 : 40, k = m == 4 ? 6 : 23, L = 11;
		uint8_t *G = malloc(n * k), buf[40][11], *src[40], *dec[40], dbuf[40][11]; unsigned esi[40];
		if (rsref_generator(m, k, n, G)) return 4;
		for (unsigned i = 0; i < k; i++) { for (unsigned b = 0; b < L; b++) buf[i][b] = (uint8_t)(i * 37 + b * 11 + 5); src[i] = buf[i]; }
		for (unsigned i = k; i < n; i++) { rsref_encode_row(m, G + i * k, k, src, L, buf[i]); }
		for (unsigned i = 0; i < k; i++) { esi[i] = n - 1 - i; dec[i] = dbuf[i]; }
		uint8_t *rx[40]; for (unsigned i = 0; i < k; i++) rx[i] = buf[esi[i]];
		if (rsref_decode(m, G, k, esi, rx, L, dec)) return 5;
		for (unsigned i = 0; i < k; i++) if (memcmp(dbuf[i], buf[i], L)) return 6;
		free(G);
	}
	return 0;
}
