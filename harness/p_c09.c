/* C09 — parameters and arguments are validated: accepted => usable, unusable => rejected (DESIGN.md §5 C09).
 * Every grid point that is outside the advertised limits, or large, runs in its own forked child with a
 * watchdog, so that a crash or a hang is attributed to the point. Oracle = the predicate of the property text. */
#define _GNU_SOURCE
#include "session.h"
#include "arena.h"
#include "of_openfec_api.h"
#include <unistd.h>
#include <signal.h>
#include <sys/wait.h>
#include <sys/resource.h>

typedef struct { int codec; uint64_t k, r, L; int64_t m, N1, seed; int role; int pre; /* codec 2: field size announced first through of_set_control_parameter (0 = not) */ } pt_t;

static const char *cn(int codec) { return codec == 1 ? "1" : codec == 2 ? "2" : "3"; }

static void limits(int codec, int m, uint32_t *maxk, uint32_t *maxn)
{	/* advertised limits, read from the library itself */
	static uint32_t cache[4][2][2]; static int have[4][2];
	int mi = (m == 4);
	if (!have[codec][mi]) {
		of_session_t *s = NULL; UINT32 a = 0, b = 0;
		if (of_create_codec_instance(&s, (of_codec_id_t)codec, OF_ENCODER, 0) != OF_STATUS_OK || !s) rep_fatal("C09: cannot create codec %d", codec);
		if (codec == 2) { UINT16 mm = (UINT16)(m == 4 ? 4 : 8); if (of_set_control_parameter(s, OF_RS_CTRL_SET_FIELD_SIZE, &mm, sizeof mm) != OF_STATUS_OK) rep_fatal("C09: cannot set field size"); }
		if (of_get_control_parameter(s, OF_CTRL_GET_MAX_K, &a, sizeof a) != OF_STATUS_OK || of_get_control_parameter(s, OF_CTRL_GET_MAX_N, &b, sizeof b) != OF_STATUS_OK)
			rep_fatal("C09: cannot read MAX_K / MAX_N of codec %d", codec);
		of_release_codec_instance(s);
		cache[codec][mi][0] = a; cache[codec][mi][1] = b; have[codec][mi] = 1;
	}
	*maxk = cache[codec][mi][0]; *maxn = cache[codec][mi][1];
}

/* which advertised limits does the point violate? returns the number, writes a '+'-joined list */
static int violated(const pt_t *p, char *out, size_t outsz)
{
	uint32_t maxk = 0, maxn = 0; int n = 0; out[0] = 0;
	int mok = p->codec != 2 || p->m == 4 || p->m == 8;
	if (mok) limits(p->codec, (int)p->m, &maxk, &maxn);
#define ADD(s) do { if (n++) strncat(out, "+", outsz - strlen(out) - 1); strncat(out, s, outsz - strlen(out) - 1); } while (0)
	if (!mok) ADD("m");
	if (p->k == 0) ADD("k=0");
	if (mok && p->k > maxk) ADD("k>max_k");
	if (p->r == 0) ADD("r=0");
	if (p->k + p->r > 0xFFFFFFFFULL) ADD("n>=2^32");
	else if (mok && p->k + p->r > maxn) ADD(p->k == 1 ? "n>max_n(k=1)" : "n>max_n");
	if (p->L == 0) ADD("L=0");
	if (p->codec == 3) {
		if (p->N1 < 3) ADD("N1<3");
		else if ((uint64_t)p->N1 > p->r) ADD("N1>r");
		if (p->seed < 1 || p->seed > 2147483646LL) ADD("seed");
	}
#undef ADD
	return n;
}

static void fill_params(const pt_t *p, void *buf)
{
	memset(buf, 0, 32);
	of_parameters_t *g = buf; g->nb_source_symbols = (UINT32)p->k; g->nb_repair_symbols = (UINT32)p->r; g->encoding_symbol_length = (UINT32)p->L;
	if (p->codec == 2) ((of_rs_2_m_parameters_t *)buf)->m = (UINT16)p->m;
	if (p->codec == 3) { ((of_ldpc_parameters_t *)buf)->prng_seed = (INT32)p->seed; ((of_ldpc_parameters_t *)buf)->N1 = (UINT8)p->N1; }
}

/* full encode -> lose some -> decode -> compare cycle; 0 ok, else phase code */
static int usability_cycle(const pt_t *p, rng_t *rng)
{
	cfg_t c = { p->codec, (int)p->m, (uint32_t)p->k, (uint32_t)p->r, (uint32_t)p->L, (uint32_t)p->N1, (uint32_t)p->seed };
	block_t b; const char *sv = g_prop; g_prop = "";
	g_session_preprobe = (int)((p->k + p->r + (uint64_t)p->N1) % 3 == 0);   /* a refused parameter set first, on the same instances */
	int rc = block_build(&b, &c, PAY_RANDOM, rng, rng_u64(rng) & rng_u64(rng), -1);     /* a quarter of the repair slots NULL: the library allocates them */
	if (rc) { g_session_preprobe = 0; block_free(&b); g_prop = sv; return 1; }
	uint32_t n = b.n, k = c.k;
	/* lose about min(r, 10%) symbols, at least one source if possible; RS needs k left */
	uint32_t *sub = malloc((n + 1) * sizeof *sub), m = 0;
	uint32_t lose = c.codec == 3 ? (c.r > 8 ? c.r / 8 : 1) : (c.r > 1 ? c.r / 2 : 1);
	if (c.codec == 3 && lose > n / 20 + 1) lose = n / 20 + 1;
	uint8_t *lost = calloc(n + 1, 1);
	for (uint32_t i = 0; i < lose; i++) lost[i == 0 ? rng_below(rng, k) : rng_below(rng, n)] = 1;
	for (uint32_t e = 0; e < n; e++) if (!lost[e]) sub[m++] = e;
	for (uint32_t i = m; i > 1; i--) { uint32_t j = rng_below(rng, i); uint32_t t = sub[i - 1]; sub[i - 1] = sub[j]; sub[j] = t; }
	hist_t h = { (int)(rng_below(rng, 2)), 1, 0, p->role == 3 ? 3 : 0, 0, m, sub, n <= 300 ? 1 : (int)(n / 20), 0, 1 };
	hres_t res; g_prop = "C01";          /* wrong symbols are reported by the C01 monitor keys; converted below */
	uint64_t before = g_viol_total;
	run_history(&b, &h, MON_C01, &res);
	g_prop = sv;
	int bad = g_viol_total != before;
	/* RS must complete (>= k symbols left); LDPC may legitimately fail on an unlucky pattern: then retry with no loss */
	int ret = 0;
	if (bad) ret = 3;
	else if (!res.complete) {
		if (c.codec != 3) ret = 2;
		else {
			for (uint32_t e = 0; e < n; e++) sub[e] = e;
			hist_t h2 = { 0, 1, 0, p->role == 3 ? 3 : 0, 0, n, sub, n <= 300 ? 1 : (int)(n / 20), 0, 0 };
			g_prop = "C01"; before = g_viol_total; run_history(&b, &h2, MON_C01, &res); g_prop = sv;
			if (g_viol_total != before) ret = 3; else if (!res.complete) ret = 2;
		}
	}
	if (ret == 0 && c.codec == 3 && n <= 4000 && rng_below(rng, 2)) {
		/* streaming use of an accepted LDPC configuration: no of_finish_decoding; after every call the available sources must be the
		 * peeling closure of what was submitted (the C04 oracle), for a random subset in random order */
		g_prop = ""; int orc = block_oracle(&b); g_prop = sv;
		if (orc == 0) {
			m = 0; for (uint32_t e = 0; e < n; e++) if (rng_below(rng, 4)) sub[m++] = e;
			for (uint32_t i = m; i > 1; i--) { uint32_t j = rng_below(rng, i); uint32_t t = sub[i - 1]; sub[i - 1] = sub[j]; sub[j] = t; }
			hist_t h3 = { 0, 0, 0, p->role == 3 ? 1 : 0, 0, m, sub, n <= 300 ? 1 : (int)(n / 20), 0, 1 };
			g_prop = "C01"; g_force_closure_monitor = 1; before = g_viol_total;
			run_history(&b, &h3, MON_C01 | MON_C04, &res);
			g_force_closure_monitor = 0; g_prop = sv;
			if (g_viol_total != before) ret = 4;
			rep_count("streaming_cycles_checked_against_the_peeling_closure", 1);
		}
	}
	if (ret == 0 && c.codec == 3 && n <= 4000 && k >= 2) {
		/* the last repair symbol lost together with about a third of everything else, then of_finish_decoding: whenever the received
		 * set determines the block (GF(2) rank oracle) it must come back complete and right */
		g_prop = ""; int orc = b.sys ? 0 : block_oracle(&b); g_prop = sv;
		if (orc == 0) for (int rep = 0; rep < 3 && ret == 0; rep++) {
			m = 0; for (uint32_t e = 0; e + 1 < n; e++) if (rng_below(rng, 10) >= 3) sub[m++] = e;
			for (uint32_t i = m; i > 1; i--) { uint32_t j = rng_below(rng, i); uint32_t t = sub[i - 1]; sub[i - 1] = sub[j]; sub[j] = t; }
			hist_t h4 = { (int)rng_below(rng, 2), 1, 0, 0, 0, m, sub, n <= 300 ? 1 : (int)(n / 20), 0, 1 };
			g_prop = "C01"; before = g_viol_total;
			run_history(&b, &h4, MON_C01 | MON_C03, &res);
			g_prop = sv;
			if (g_viol_total != before) ret = 3;
			else if (res.oracle_solvable == 1 && !res.complete) ret = 5;
			rep_count("cycles_with_the_last_repair_symbol_lost", 1);
		}
	}
	g_session_preprobe = 0;
	free(sub); free(lost); block_free(&b);
	return ret;
}

/* child: exit 0 = accepted (and, if asked, usable), 10 = rejected with an error status, 11 = create failed,
 * 20+phase = accepted but unusable */
static int child_body(const pt_t *p, int want_cycle, rng_t *rng)
{
	of_session_t *s = NULL; char pb[32];
	if (of_create_codec_instance(&s, (of_codec_id_t)p->codec, (of_codec_type_t)p->role, 0) != OF_STATUS_OK || !s) return 11;
	if (p->pre) { UINT16 fs = (UINT16)p->pre; if (of_set_control_parameter(s, OF_RS_CTRL_SET_FIELD_SIZE, &fs, sizeof fs) != OF_STATUS_OK) { of_release_codec_instance(s); return 12; } }
	fill_params(p, pb);
	of_status_t st = of_set_fec_parameters(s, (of_parameters_t *)pb);
	int cyc = 0;
	if (st == OF_STATUS_OK && p->pre && p->k && p->r && p->L && p->L <= 4096 && p->k + p->r <= 255) {
		/* the very session that was configured after the pre-call must be usable (the generic cycle uses fresh sessions) */
		uint32_t k = (uint32_t)p->k, n = (uint32_t)(p->k + p->r), L = (uint32_t)p->L; void *tab[256];
		for (uint32_t i = 0; i < n; i++) { tab[i] = calloc(1, L); if (i < k) memset(tab[i], (int)(i * 7 + 1), L); }
		if (p->role & OF_ENCODER) for (uint32_t i = k; i < n && !cyc; i++) if (of_build_repair_symbol(s, tab, i) != OF_STATUS_OK) cyc = 1;
		for (uint32_t i = 0; i < n; i++) free(tab[i]);
	}
	of_release_codec_instance(s);
	if (st != OF_STATUS_OK) return 10;
	if (cyc) return 21;
	if (want_cycle) { int ph = usability_cycle(p, rng); if (ph) return 20 + ph; }
	return 0;
}

static unsigned g_alarm_s;
static int run_point(const pt_t *p, int want_cycle, rng_t *rng, int in_child, int *sig)
{
	*sig = 0;
	if (!in_child) return child_body(p, want_cycle, rng);
	fflush(NULL);
	pid_t pid = fork();
	if (pid < 0) rep_fatal("C09: fork failed");
	if (pid == 0) {
#if !defined(OFH_ASAN)
		struct rlimit rl = { 6ULL << 30, 6ULL << 30 }; setrlimit(RLIMIT_AS, &rl);
#endif
		alarm(g_alarm_s ? g_alarm_s : 90);
		signal(SIGALRM, SIG_DFL);
		_exit(child_body(p, want_cycle, rng));
	}
	int status = 0;
	while (waitpid(pid, &status, 0) < 0) ;
	if (WIFSIGNALED(status)) { *sig = WTERMSIG(status); return -1; }
	return WEXITSTATUS(status);
}

static uint64_t g_pts;
static void point(const pt_t *p, rng_t *rng)
{
	char lim[160]; int nv = violated(p, lim, sizeof lim);
	static const char *rolename[] = { "?", "enc", "dec", "both" };
	if (!rep_case("params codec=%d pre-field-size=%d k=%llu r=%llu L=%llu m=%lld N1=%lld seed=%lld role=%s expect=%s%s", p->codec, p->pre, (unsigned long long)p->k, (unsigned long long)p->r,
		      (unsigned long long)p->L, (long long)p->m, (long long)p->N1, (long long)p->seed, rolename[p->role], nv ? "reject:" : "accept", lim)) return;
	g_pts++;
	/* usability cycle only inside the limits and with sizes that can be exercised */
	int big = p->L > 70000 || (p->k + p->r) * p->L > (64u << 20);
	int want_cycle = !nv && !big && p->role != OF_ENCODER;   /* the cycle uses its own encoder session; role 'both': the decoding instance is an encoder+decoder that re-encodes afterwards */
	int in_child = nv || big || (p->k + p->r) > 2000 || p->L > 4096;
	int sig = 0; char key[200];
	rng_t rng_copy = *rng;
	int rc = run_point(p, want_cycle, rng, in_child, &sig);
	if (rc == -1 && sig == SIGALRM) {
		/* a wall-clock limit is never a verdict by itself: run the point once more with a generous limit */
		rep_count("points_rerun_after_watchdog", 1);
		g_alarm_s = 1200; rc = run_point(p, want_cycle, &rng_copy, in_child, &sig); g_alarm_s = 0;
	}
	if (rc == -1) {
		const char *what = sig == SIGALRM ? "hang" : "crash";
		if (nv) snprintf(key, sizeof key, "%s-outside:codec=%s:limit=%s", what, cn(p->codec), lim);
		else snprintf(key, sizeof key, "%s-inside:codec=%s", what, cn(p->codec));
		rep_viol(key, "child died with signal %d (sanitizer abort shows as exit 41/SIGABRT)", sig);
	} else if (rc == 41 || rc == 40) {
		if (nv) snprintf(key, sizeof key, "crash-outside:codec=%s:limit=%s", cn(p->codec), lim); else snprintf(key, sizeof key, "crash-inside:codec=%s", cn(p->codec));
		rep_viol(key, "sanitizer / fault-handler abort in the child (exit %d)", rc);
	} else if (rc == 11) { snprintf(key, sizeof key, "create-failed:codec=%s", cn(p->codec)); rep_viol(key, "of_create_codec_instance failed"); }
	else if (rc == 12) { snprintf(key, sizeof key, "reject-inside:codec=%s:set-field-size", cn(p->codec)); rep_viol(key, "of_set_control_parameter(OF_RS_CTRL_SET_FIELD_SIZE, %d) failed", p->pre); }
	else if (nv && rc != 10) { snprintf(key, sizeof key, "accept-outside:codec=%s:limit=%s", cn(p->codec), lim); rep_viol(key, "of_set_fec_parameters returned OF_STATUS_OK for a configuration outside the advertised limits"); }
	else if (!nv && rc == 10 && p->L > (1u << 20)) rep_count("huge_symbol_length_rejected_tolerated_as_out_of_memory", 1);
	else if (!nv && rc == 10) { snprintf(key, sizeof key, "reject-inside:codec=%s", cn(p->codec)); rep_viol(key, "of_set_fec_parameters rejected a configuration inside the advertised limits"); }
	else if (!nv && rc >= 20) { snprintf(key, sizeof key, "accepted-unusable:codec=%s:phase=%s", cn(p->codec), rc == 21 ? "encode" : rc == 22 ? "decode-incomplete" : rc == 24 ? "streaming-decode" : rc == 25 ? "solvable-but-incomplete" : "decode-wrong"); rep_viol(key, "accepted configuration failed the encode/decode cycle"); }
	if (!nv) { rep_count("points_inside_limits", 1); if (want_cycle) rep_count("usability_cycles", 1); rep_sample("inside-limits"); }
	else { rep_count("points_outside_limits", 1); rep_sample("outside-limits"); }
	rep_case_done(1, 0, 1);
}

/* ---- value sets ---- */
static int vals_k(int codec, int m, uint64_t *v)
{
	uint32_t mk, mn; limits(codec, m, &mk, &mn);
	uint64_t a[] = { 0, 1, 2, mk - 1, mk, (uint64_t)mk + 1, 2ULL * mk, 65536, 2147483647ULL, 2147483648ULL, 4294967295ULL };
	memcpy(v, a, sizeof a); return 11;
}
static int vals_r(int codec, int m, uint64_t k, uint64_t *v)
{
	uint32_t mk, mn; limits(codec, m, &mk, &mn); int n = 0;
	v[n++] = 0; v[n++] = 1; v[n++] = 2; v[n++] = 3; v[n++] = 7;
	if (k < mn) { v[n++] = mn - k; if (mn - k > 1) v[n++] = mn - k - 1; }
	v[n++] = (k < mn ? mn - k : 0) + 1;
	v[n++] = mn; v[n++] = 2ULL * mn; v[n++] = 65536; v[n++] = 2147483648ULL; v[n++] = 4294967295ULL;
	if (k && k <= 0xFFFFFFFFULL) { v[n++] = 4294967296ULL - k; v[n++] = 4294967296ULL - k + 1 <= 4294967295ULL ? 4294967296ULL - k + 1 : 4294967295ULL; }   /* k + r wraps to 0 / 1 */
	return n;
}
static const uint64_t VL[] = { 0, 1, 2, 1024, 65536, 2147483648ULL, 4294967295ULL };
static const int64_t VM[] = { 0, 1, 3, 4, 5, 7, 8, 9, 16, 255, 65535 };
static const int64_t VSEED[] = { 0, 1, 2, 2147483646LL, 2147483647LL, -1, -2147483647LL - 1 };

static int nonnominal(const pt_t *p, const pt_t *nom)
{
	return (p->k != nom->k) + (p->r != nom->r) + (p->L != nom->L) + (p->m != nom->m) + (p->N1 != nom->N1) + (p->seed != nom->seed);
}

static void grid(int codec, int m, long *unit, int maxnon)
{
	pt_t nom = { codec, codec == 3 ? 20 : 5, codec == 3 ? 10 : 3, 16, m, codec == 3 ? 3 : 0, codec == 3 ? 1 : 0, OF_DECODER, 0 };
	uint64_t ks[16], rs[24]; int nk = vals_k(codec, m ? m : 8, ks);
	/* add the nominal values to the sets */
	ks[nk++] = nom.k;
	for (int ik = 0; ik < nk; ik++, (*unit)++) {
		rep_unit(*unit);
		if (!rep_unit_mine(*unit)) continue;
		rng_t rng = rng_make(g_run.seed, 900 + (uint64_t)codec * 16 + (uint64_t)m, (uint64_t)ik);
		int nr = vals_r(codec, m ? m : 8, ks[ik], rs); rs[nr++] = nom.r;
		for (int ir = 0; ir < nr; ir++) for (unsigned il = 0; il <= sizeof VL / sizeof VL[0]; il++) {
			pt_t p = nom; p.k = ks[ik]; p.r = rs[ir]; p.L = il < sizeof VL / sizeof VL[0] ? VL[il] : nom.L;
			int64_t n1s[12]; int nn1 = 0; int64_t sds[8]; int nsd = 0; int64_t ms[12]; int nm = 0;
			if (codec == 3) {
				n1s[nn1++] = 0; n1s[nn1++] = 1; n1s[nn1++] = 2; n1s[nn1++] = 3; n1s[nn1++] = 4; n1s[nn1++] = 255;
				if (p.r >= 1 && p.r <= 256) { n1s[nn1++] = (int64_t)p.r - 1; n1s[nn1++] = (int64_t)p.r; if (p.r < 255) n1s[nn1++] = (int64_t)p.r + 1; }
				for (unsigned i = 0; i < sizeof VSEED / sizeof VSEED[0]; i++) sds[nsd++] = VSEED[i];
			} else { n1s[nn1++] = 0; sds[nsd++] = 0; }
			if (codec == 2) { ms[nm++] = m; for (unsigned i = 0; i < sizeof VM / sizeof VM[0]; i++) if (VM[i] != m) ms[nm++] = VM[i]; } else ms[nm++] = 0;
			for (int im = 0; im < nm; im++) for (int i1 = 0; i1 < nn1; i1++) for (int is = 0; is < nsd; is++) {
				p.m = ms[im]; p.N1 = n1s[i1]; p.seed = sds[is];
				if (p.N1 < 0 || p.N1 > 255) continue;
				if (nonnominal(&p, &nom) > maxnon) continue;
				for (int role = 1; role <= 3; role++) {
					/* all three roles at every point would triple the forks: roles rotate, boundary points get all */
					int boundary = nonnominal(&p, &nom) <= 1;
					if (!boundary && ((ik + ir + (int)il + im + i1 + is) % 3) + 1 != role) continue;
					p.role = role; p.pre = 0; point(&p, &rng);
					/* codec 2: the same point with the field size announced first, the same and the other one */
					if (codec == 2 && (boundary || ((ik + ir + (int)il + im) % 4) == 0)) { p.pre = 4; point(&p, &rng); p.pre = 8; point(&p, &rng); p.pre = 0; }
				}
			}
		}
	}
}

/* ---- argument corruption on otherwise valid sessions ---- */
static void expect_err(const char *fn, const char *corr, int codec, of_status_t st)
{
	if (st == OF_STATUS_OK) { char key[160]; snprintf(key, sizeof key, "bad-arg-not-rejected:%s:%s", fn, corr); rep_viol(key, "codec=%d returned OF_STATUS_OK", codec); }
	rep_count("corrupted_calls", 1);
}

static void corruption_case(const cfg_t *c, rng_t *rng)
{
	if (!rep_case("arg-corruption codec=%s k=%u r=%u L=%u N1=%u seed=%u", codec_name(c), c->k, c->r, c->L, c->N1, c->seed)) return;
	uint32_t k = c->k, n = c->k + c->r; char pb[32], key[160];
	block_t ref; const char *sv = g_prop; g_prop = "";
	if (block_build(&ref, c, PAY_RANDOM, rng, 0, -1)) { g_prop = sv; rep_viol("reject-inside:corruption-setup", "reference block could not be built"); rep_case_done(1, 0, 1); return; }
	g_prop = sv;
	void **tab = calloc(n + 1, sizeof(void *)), **stab = calloc(k + 1, sizeof(void *));
	uint8_t *scratch = malloc(c->L + 1);
	UINT32 u32 = 0;
	/* NULL session on every entry point */
	cfg_params(c, pb);
	expect_err("of_set_fec_parameters", "null-session", c->codec, of_set_fec_parameters(NULL, (of_parameters_t *)pb));
	expect_err("of_set_callback_functions", "null-session", c->codec, of_set_callback_functions(NULL, NULL, NULL, NULL));
	expect_err("of_build_repair_symbol", "null-session", c->codec, of_build_repair_symbol(NULL, tab, k));
	expect_err("of_decode_with_new_symbol", "null-session", c->codec, of_decode_with_new_symbol(NULL, ref.sym[0], 0));
	expect_err("of_set_available_symbols", "null-session", c->codec, of_set_available_symbols(NULL, tab));
	expect_err("of_finish_decoding", "null-session", c->codec, of_finish_decoding(NULL));
	expect_err("of_get_source_symbols_tab", "null-session", c->codec, of_get_source_symbols_tab(NULL, stab));
	expect_err("of_get_control_parameter", "null-session", c->codec, of_get_control_parameter(NULL, OF_CTRL_GET_MAX_K, &u32, sizeof u32));
	expect_err("of_set_control_parameter", "null-session", c->codec, of_set_control_parameter(NULL, OF_RS_CTRL_SET_FIELD_SIZE, &u32, sizeof u32));
	if (of_is_decoding_complete(NULL)) rep_viol("bad-arg-not-rejected:of_is_decoding_complete:null-session", "returned true");
	rep_count("corrupted_calls", 1);

	/* ---- encoder-only session ---- */
	of_session_t *e = NULL;
	if (of_create_codec_instance(&e, (of_codec_id_t)c->codec, OF_ENCODER, 0) != OF_STATUS_OK || !e) rep_fatal("C09: create failed");
	{	/* NULL parameters: on an instance of its own, which is only released afterwards (the status is OF_STATUS_FATAL_ERROR) */
		of_session_t *t = NULL;
		if (of_create_codec_instance(&t, (of_codec_id_t)c->codec, OF_ENCODER, 0) == OF_STATUS_OK && t) { expect_err("of_set_fec_parameters", "null-params", c->codec, of_set_fec_parameters(t, NULL)); of_release_codec_instance(t); }
	}
	if (of_set_fec_parameters(e, (of_parameters_t *)pb) != OF_STATUS_OK) rep_viol("reject-inside:corruption-setup", "valid parameters rejected");
	else {
		for (uint32_t i = 0; i < n; i++) tab[i] = i < k ? (void *)ref.sym[i] : NULL;
		uint8_t **out = calloc(n + 1, sizeof *out);
		for (uint32_t i = k; i < n; i++) { out[i] = malloc(c->L + 1); tab[i] = out[i]; }
		static const char *cname[] = { "esi=k-1", "esi=n", "esi=n+1", "esi=2^32-1" };
		uint32_t bad_esi[4] = { k - 1, n, n + 1, 0xFFFFFFFFu };
		for (int j = 0; j < 4; j++) expect_err("of_build_repair_symbol", cname[j], c->codec, of_build_repair_symbol(e, tab, bad_esi[j]));
		/* wrong role: decoding calls on an encoder-only instance */
		expect_err("of_decode_with_new_symbol", "wrong-role", c->codec, of_decode_with_new_symbol(e, ref.sym[0], 0));
		expect_err("of_set_available_symbols", "wrong-role", c->codec, of_set_available_symbols(e, tab));
		expect_err("of_finish_decoding", "wrong-role", c->codec, of_finish_decoding(e));
		expect_err("of_get_source_symbols_tab", "wrong-role", c->codec, of_get_source_symbols_tab(e, stab));
		if (of_is_decoding_complete(e)) rep_viol("bad-arg-not-rejected:of_is_decoding_complete:wrong-role", "returned true on an encoder-only instance");
		rep_count("corrupted_calls", 1);
		/* the session must still be usable: build every repair symbol and compare with the reference block */
		int ok = 1;
		for (uint32_t i = k; i < n && ok; i++) { if (of_build_repair_symbol(e, tab, i) != OF_STATUS_OK || memcmp(out[i], ref.sym[i], c->L)) ok = 0; }
		if (!ok) { snprintf(key, sizeof key, "session-damaged-after:encoder-corruptions:%s", codec_name(c)); rep_viol(key, "encoder session no longer produces the codeword after rejected calls"); }
		for (uint32_t i = k; i < n; i++) free(out[i]);
		free(out);
	}
	of_release_codec_instance(e);

	/* ---- decoder-only session ---- */
	of_session_t *d = NULL;
	if (of_create_codec_instance(&d, (of_codec_id_t)c->codec, OF_DECODER, 0) != OF_STATUS_OK || !d) rep_fatal("C09: create failed");
	if (of_set_fec_parameters(d, (of_parameters_t *)pb) != OF_STATUS_OK) rep_viol("reject-inside:corruption-setup", "valid parameters rejected (decoder)");
	else {
		for (uint32_t i = 0; i < n; i++) tab[i] = ref.sym[i];
		expect_err("of_build_repair_symbol", "wrong-role", c->codec, of_build_repair_symbol(d, tab, k));
		static const char *cname[] = { "esi=n", "esi=n+1", "esi=2^32-1" };
		uint32_t bad_esi[3] = { n, n + 1, 0xFFFFFFFFu };
		for (int j = 0; j < 3; j++) expect_err("of_decode_with_new_symbol", cname[j], c->codec, of_decode_with_new_symbol(d, ref.sym[0], bad_esi[j]));
		expect_err("of_decode_with_new_symbol", "null-symbol", c->codec, of_decode_with_new_symbol(d, NULL, 0));
		expect_err("of_set_available_symbols", "null-table", c->codec, of_set_available_symbols(d, NULL));
		/* every symbol is then submitted, repair symbols first (so that source symbols are really decoded before
		 * their own copy arrives), with the corruptions repeated in the middle; no of_finish_decoding is needed
		 * and nothing is submitted after one (protocol-conforming) */
		uint32_t mid = n / 2;
		int ok = 1;
		for (uint32_t i = 0; i < n; i++) {
			uint32_t esi = n - 1 - i;
			if (i == mid) { for (int j = 0; j < 3; j++) expect_err("of_decode_with_new_symbol", cname[j], c->codec, of_decode_with_new_symbol(d, ref.sym[0], bad_esi[j]));
					expect_err("of_build_repair_symbol", "wrong-role", c->codec, of_build_repair_symbol(d, tab, k)); }
			if (of_decode_with_new_symbol(d, ref.sym[esi], esi) != OF_STATUS_OK) ok = 0;
		}
		if (!of_is_decoding_complete(d) || of_get_source_symbols_tab(d, stab) != OF_STATUS_OK) ok = 0;
		else for (uint32_t i = 0; i < k; i++) {
			if (!stab[i] || memcmp(stab[i], ref.sym[i], c->L)) ok = 0;
			if (stab[i] && stab[i] != (void *)ref.sym[i]) free(stab[i]);
		}
		if (!ok) { snprintf(key, sizeof key, "session-damaged-after:decoder-corruptions:%s", codec_name(c)); rep_viol(key, "decoder session does not complete a normal cycle after rejected calls"); }
	}
	of_release_codec_instance(d);
	free(tab); free(stab); free(scratch); block_free(&ref);
	rep_sample("argument-corruption");
	rep_case_done(1, 0, 1);
}

/* ---- interior of the accepted region: every accepted configuration must carry a block end to end ---- */
static void interior(long *unit)
{
	int T = g_run.thorough;
	static const uint64_t Ls[] = { 1, 3, 16, 33, 7, 64 };
	/* LDPC-Staircase: small k (including 1), every r in 3..14 (odd and even, at and above N1), every N1 <= min(r, 9) */
	static const uint64_t lk[] = { 1, 2, 3, 4, 7, 16, 40 };
	for (unsigned ik = 0; ik < sizeof lk / sizeof lk[0]; ik++, (*unit)++) {
		rep_unit(*unit);
		if (!rep_unit_mine(*unit)) continue;
		rng_t rng = rng_make(g_run.seed, 970, ik);
		for (uint64_t r = 3; r <= 14; r++) for (int64_t N1 = 3; N1 <= (int64_t)r && N1 <= 9; N1++) for (int sd = 0; sd < (T ? 6 : 2); sd++) {
			pt_t p = { 3, lk[ik], r, Ls[(ik + r + (uint64_t)N1 + (unsigned)sd) % 6], 0, N1, sd == 0 ? 1 : sd == 1 ? 16807 : 1 + (int64_t)rng_below(&rng, 2147483646u), 1 + (int)((r + (uint64_t)N1 + (unsigned)sd) % 3), 0 };
			if (p.role == OF_ENCODER) p.role = OF_DECODER;
			for (int rep = 0; rep < (T ? 4 : 2); rep++) point(&p, &rng);
		}
	}
	/* Reed-Solomon: GF(2^4) every (k, r) with k + r <= 15; GF(2^8) both codecs on a k ladder with r = 1, 2, 5 and the largest legal r */
	for (int which = 0; which < 3; which++, (*unit)++) {
		rep_unit(*unit);
		if (!rep_unit_mine(*unit)) continue;
		rng_t rng = rng_make(g_run.seed, 980, (uint64_t)which);
		if (which == 0) {
			for (uint64_t k = 1; k <= 14; k++) for (uint64_t r = 1; k + r <= 15; r++) { pt_t p = { 2, k, r, Ls[(k + r) % 6], 4, 0, 0, OF_DECODER + (int)((k + r) & 1), 0 }; point(&p, &rng); if (T) point(&p, &rng); }
		} else {
			static const uint64_t kl[] = { 1, 2, 3, 10, 63, 64, 100, 127, 128, 200, 253, 254 };
			for (unsigned i = 0; i < sizeof kl / sizeof kl[0]; i++) {
				uint64_t k = kl[i], rr[4] = { 1, 2, 5, 255 - k };
				for (int j = 0; j < 4; j++) { if (k + rr[j] > 255) continue; pt_t p = { which == 1 ? 1 : 2, k, rr[j], Ls[(i + (unsigned)j) % 6], which == 1 ? 0 : 8, 0, 0, OF_DECODER + (int)((i + (unsigned)j) & 1), 0 }; point(&p, &rng); if (T) point(&p, &rng); }
			}
		}
	}
}

int p_c09(void)
{
	g_prop = "C09";
	ar_init();
	long unit = 0; int T = g_run.thorough;
	int maxnon = T ? 3 : 2;
	grid(1, 0, &unit, maxnon);
	grid(2, 8, &unit, maxnon);
	grid(2, 4, &unit, maxnon);
	grid(3, 0, &unit, maxnon);
	interior(&unit);
	/* argument corruption */
	static const cfg_t cc[] = { {1,0,5,3,16,0,0}, {1,0,1,1,1,0,0}, {1,0,200,55,8,0,0}, {2,8,5,3,16,0,0}, {2,8,100,100,3,0,0}, {2,4,5,3,16,0,0}, {2,4,7,8,5,0,0},
				    {3,0,20,10,16,3,1}, {3,0,5,5,7,4,16807}, {3,0,100,50,4,5,2147483646u}, {3,0,1,3,9,3,1} };
	for (unsigned i = 0; i < sizeof cc / sizeof cc[0]; i++, unit++) {
		rep_unit(unit);
		if (!rep_unit_mine(unit)) continue;
		rng_t rng = rng_make(g_run.seed, 990, i);
		for (int rep = 0; rep < (T ? 40 : 2); rep++) { cfg_t c = cc[i]; if (rep) { c.L = 1 + rng_below(&rng, 40); if (c.codec == 3) c.seed = 1 + rng_below(&rng, 2147483646u); } corruption_case(&c, &rng); }
	}
	rep_count("grid_points", g_pts);
	return 0;
}
