#include "rfc5170.h"
#include <stdlib.h>
#include <string.h>

uint32_t rfc_pmms_next(uint32_t *state)
{
	*state = (uint32_t)(((uint64_t)*state * 16807ULL) % 2147483647ULL);
	return *state;
}
uint32_t rfc_pmms_rand(uint32_t *state, uint32_t maxv)
{
	rfc_pmms_next(state);
	return (uint32_t)((double)*state * (double)maxv / (double)0x7FFFFFFF);
}

/* per-column membership: a column holds at most N1 + (few extra) rows */
typedef struct { unsigned n, cap; unsigned *rows; } col_t;
static int col_has(const col_t *c, unsigned row) { for (unsigned i = 0; i < c->n; i++) if (c->rows[i] == row) return 1; return 0; }
static void col_add(col_t *c, unsigned row)
{
	if (c->n == c->cap) { c->cap = c->cap ? c->cap * 2 : 8; c->rows = realloc(c->rows, c->cap * sizeof(unsigned)); }
	c->rows[c->n++] = row;
}
static int cmp_u(const void *a, const void *b) { unsigned x = *(const unsigned *)a, y = *(const unsigned *)b; return x < y ? -1 : x > y; }

rfc_mat_t *rfc5170_build(unsigned k, unsigned r, unsigned N1, uint32_t seed)
{
	rfc_mat_t *m = calloc(1, sizeof *m);
	m->k = k; m->r = r; m->N1 = N1; m->seed = seed;
	col_t *cols = calloc(k + 1, sizeof *cols);
	unsigned *deg = calloc(r + 1, sizeof(unsigned));
	uint32_t st = seed;
	uint64_t tot = (uint64_t)N1 * k;
	unsigned *u = malloc((tot + 1) * sizeof(unsigned));
	for (int64_t h = (int64_t)tot - 1; h >= 0; h--) u[h] = (unsigned)(h % r);
	uint64_t t = 0;
	for (unsigned j = 0; j < k; j++)
		for (unsigned h = 0; h < N1; h++) {
			uint64_t i;
			for (i = t; i < tot && col_has(&cols[j], u[i]); i++) ;
			if (i < tot) {
				do { i = t + rfc_pmms_rand(&st, (uint32_t)(tot - t)); } while (col_has(&cols[j], u[i]));
				col_add(&cols[j], u[i]); deg[u[i]]++;
				u[i] = u[t]; t++;
			} else {
				do { i = rfc_pmms_rand(&st, r); } while (col_has(&cols[j], (unsigned)i));
				col_add(&cols[j], (unsigned)i); deg[i]++;
			}
		}
	free(u);
	/* "Add extra bits to avoid rows with less than two 1s" */
	for (unsigned i = 0; i < r; i++) {
		if (deg[i] == 0) {
			unsigned j = rfc_pmms_rand(&st, k);
			col_add(&cols[j], i); deg[i]++; m->extra_added = 1;
		}
		if (deg[i] == 1 && k > 1) {   /* for k == 1 the RFC loop cannot terminate; the library skips it and so does this oracle */
			unsigned j;
			do { j = rfc_pmms_rand(&st, k); } while (col_has(&cols[j], i));
			col_add(&cols[j], i); deg[i]++; m->extra_added = 1;
		}
	}
	m->row_len = calloc(r + 1, sizeof(unsigned)); m->row_cols = calloc(r + 1, sizeof(unsigned *));
	for (unsigned i = 0; i < r; i++) m->row_cols[i] = malloc((deg[i] + 1) * sizeof(unsigned));
	m->all_source_cols_even = 1;
	for (unsigned j = 0; j < k; j++) {
		if (cols[j].n & 1) m->all_source_cols_even = 0;
		for (unsigned x = 0; x < cols[j].n; x++) { unsigned row = cols[j].rows[x]; m->row_cols[row][m->row_len[row]++] = j; }
		free(cols[j].rows);
	}
	for (unsigned i = 0; i < r; i++) qsort(m->row_cols[i], m->row_len[i], sizeof(unsigned), cmp_u);
	free(cols); free(deg);
	return m;
}
void rfc5170_free(rfc_mat_t *m)
{
	if (!m) return;
	for (unsigned i = 0; i < m->r; i++) free(m->row_cols[i]);
	free(m->row_cols); free(m->row_len); free(m);
}

int selftest_rfc5170(void)
{
	static const uint32_t first[] = { 16807, 282475249, 1622650073, 984943658, 1144108930, 470211272, 101027544, 1457850878, 1458777923, 2007237709 };
	uint32_t st = 1;
	for (int i = 1; i <= 10000; i++) {
		rfc_pmms_next(&st);
		if (i <= 10 && st != first[i - 1]) return 1;
		if (i == 9998 && st != 925166085u) return 2;
	}
	if (st != 1043618065u) return 3;
	/* structural sanity of the construction: N1 entries per column (plus extras), every row degree >= 2 when k > 1 */
	for (unsigned k = 2; k < 40; k += 3) for (unsigned r = 3; r < 20; r += 2) for (unsigned N1 = 3; N1 <= r && N1 <= 6; N1++) {
		rfc_mat_t *m = rfc5170_build(k, r, N1, 1 + k * 131 + r);
		unsigned tot = 0;
		for (unsigned i = 0; i < r; i++) {
			if (m->row_len[i] < 2 && !(k < 2)) { rfc5170_free(m); return 4; }
			for (unsigned x = 1; x < m->row_len[i]; x++) if (m->row_cols[i][x - 1] >= m->row_cols[i][x]) { rfc5170_free(m); return 5; }
			tot += m->row_len[i];
		}
		if (tot < N1 * k || (!m->extra_added && tot != N1 * k)) { rfc5170_free(m); return 6; }
		rfc5170_free(m);
	}
	return 0;
}
