/* C16 — 2D-parity codec: product-parity structure, sound and complete erasure recovery (DESIGN.md §5 C16). */
#define _GNU_SOURCE
#include "session.h"
#include "arena.h"
#include "of_openfec_api.h"
#include <unistd.h>
#include <sys/wait.h>

/* offer (k,r) to of_set_fec_parameters in a child: 0 accepted, 10 rejected, -sig crashed */
static int offer(uint32_t k, uint32_t r, int role)
{
	fflush(NULL);
	pid_t pid = fork();
	if (pid < 0) rep_fatal("fork");
	if (pid == 0) {
		alarm(30);
		of_session_t *s = NULL; of_2d_parity_parameters_t p = { k, r, 8 };
		if (of_create_codec_instance(&s, OF_CODEC_2D_PARITY_MATRIX_STABLE, (of_codec_type_t)role, 0) != OF_STATUS_OK || !s) _exit(11);
		of_status_t st = of_set_fec_parameters(s, (of_parameters_t *)&p);
		of_release_codec_instance(s);
		_exit(st == OF_STATUS_OK ? 0 : 10);
	}
	int status = 0; while (waitpid(pid, &status, 0) < 0) ;
	if (WIFSIGNALED(status)) return -WTERMSIG(status);
	return WEXITSTATUS(status);
}

/* is the family of check sets S_0..S_{r-1} over k sources a d x l product single-parity structure? */
static int product_structure(const block_t *b, char *why, size_t wsz)
{
	uint32_t k = b->c.k, r = b->c.r; unsigned gw = b->gw;
#define S(j) (b->g + (size_t)(j) * gw)
	unsigned *deg = calloc(k + 1, sizeof *deg); int ok = 1;
	for (uint32_t j = 0; j < r; j++) for (uint32_t i = 0; i < k; i++) if (S(j)[i / 64] >> (i % 64) & 1) deg[i]++;
	for (uint32_t i = 0; i < k && ok; i++) if (deg[i] != 2) { snprintf(why, wsz, "source %u belongs to %u checks (want 2)", i, deg[i]); ok = 0; }
	free(deg);
	if (!ok) return 0;
	/* classes: A = check 0 and every check disjoint from it; B = the others */
	uint8_t *cls = calloc(r + 1, 1); unsigned nA = 0, nB = 0;
	for (uint32_t j = 0; j < r; j++) {
		int inter = 0; for (unsigned w = 0; w < gw; w++) if (S(j)[w] & S(0)[w]) inter = 1;
		cls[j] = (j == 0 || !inter) ? 0 : 1; if (cls[j]) nB++; else nA++;
	}
	if (nA * nB != k || nA + nB != r) { snprintf(why, wsz, "classes of %u and %u checks do not factor k=%u", nA, nB, k); free(cls); return 0; }
	for (uint32_t a = 0; a < r && ok; a++) {
		unsigned sz = 0; for (unsigned w = 0; w < gw; w++) sz += (unsigned)__builtin_popcountll(S(a)[w]);
		unsigned want = cls[a] ? nA : nB;
		if (sz != want) { snprintf(why, wsz, "check %u has %u sources (want %u)", a, sz, want); ok = 0; break; }
		for (uint32_t c2 = a + 1; c2 < r && ok; c2++) {
			unsigned inter = 0; for (unsigned w = 0; w < gw; w++) inter += (unsigned)__builtin_popcountll(S(a)[w] & S(c2)[w]);
			if (cls[a] == cls[c2] && inter) { snprintf(why, wsz, "checks %u and %u of the same class share %u sources", a, c2, inter); ok = 0; }
			if (cls[a] != cls[c2] && inter != 1) { snprintf(why, wsz, "row/column checks %u and %u share %u sources (want 1)", a, c2, inter); ok = 0; }
		}
	}
	free(cls);
	return ok;
#undef S
}

static uint32_t g_sub[64];

static void decode_case(const block_t *b, uint64_t mask, int api, int order, int cb, int finish, int truncate, rng_t *r)
{
	uint32_t n = b->n, k = b->c.k, m = 0;
	for (uint32_t e = 0; e < n; e++) if (mask >> e & 1) g_sub[m++] = e;
	if (order == 1) for (uint32_t i = 0; i < m / 2; i++) { uint32_t t = g_sub[i]; g_sub[i] = g_sub[m - 1 - i]; g_sub[m - 1 - i] = t; }
	if (order == 2) for (uint32_t i = m; i > 1; i--) { uint32_t j = rng_below(r, i); uint32_t t = g_sub[i - 1]; g_sub[i - 1] = g_sub[j]; g_sub[j] = t; }
	hist_t h = { api, finish, cb, (int)(((mask * 0x9E3779B97F4A7C15ULL) >> 40) % 3 == 0), 0, truncate >= 0 && (uint32_t)truncate < m ? (uint32_t)truncate : m, g_sub, 1, 0, 1 };
	if (!rep_case("2d-decode k=%u r=%u L=%u mask=0x%llx api=%d order=%d cb=%d finish=%d nsub=%u", k, b->c.r, b->c.L, (unsigned long long)mask, api, order, cb, finish, h.nsub)) return;
	g_session_preprobe = ((mask * 2654435761ULL) >> 13) % 4 == 0;
	hres_t res; run_history(b, &h, MON_C16 | MON_C01 | MON_C10 | MON_C08, &res);
	g_session_preprobe = 0;
	uint32_t nrecv = (uint32_t)__builtin_popcountll(mask);
	if (finish && h.nsub == m) {
		/* any single loss must be recovered */
		if (nrecv == n - 1 && !res.complete) rep_viol("2d-not-recovered:single-loss", "one symbol lost and decoding did not complete");
		rep_count(res.oracle_solvable ? (res.complete ? "outcome_determined_recovered" : "outcome_determined_NOT_recovered") : (res.complete ? "outcome_undetermined_COMPLETE" : "outcome_undetermined_incomplete"), 1);
	}
	if (res.decoded_it + res.decoded_fin) rep_sample("decoded");
	rep_case_done((res.decoded_it + res.decoded_fin) > 0, 0, 1);
}

int p_c16(void)
{
	g_prop = "C16";
	ar_init();
	int T = g_run.thorough; long unit = 0;
	/* every (k,r) in the window is offered; the accepted ones are explored */
	for (uint32_t k = 0; k <= 17; k++) for (uint32_t r = 0; r <= 26; r++) {
		uint32_t n = k + r;
		int probed = 0, acc = 0;
		/* sub-units: subset ranges of 2^14 */
		uint64_t nsub = (n <= 14 || n > 24) ? 1 : (1ULL << (n - 14));
		for (uint64_t sp = 0; sp < nsub; sp++, unit++) {
			rep_unit(unit);
			if (!rep_unit_mine(unit)) continue;
			if (!probed) {
				probed = 1;
				int a1 = offer(k, r, OF_ENCODER), a2 = offer(k, r, OF_DECODER);
				if (sp == 0 && rep_case("2d-offer k=%u r=%u", k, r)) {
					if (a1 < 0 || a2 < 0 || a1 == 40 || a1 == 41 || a2 == 40 || a2 == 41) rep_viol("2d-crash:of_set_fec_parameters", "offering (k=%u,r=%u) crashed (enc=%d dec=%d)", k, r, a1, a2);
					else if (a1 != a2) rep_viol("2d-structure:enc-dec-disagree", "encoder %s, decoder %s (k=%u,r=%u)", a1 ? "rejects" : "accepts", a2 ? "rejects" : "accepts", k, r);
					else if (a1 == 0 && (k == 0 || r == 0 || k > 16 || n > 24)) rep_viol("2d-structure:accepted-outside-limits", "(k=%u,r=%u) accepted", k, r);
					rep_count(a1 == 0 ? "configurations_accepted" : "configurations_rejected", 1);
					rep_case_done(1, 0, 1);
				}
				acc = a1 == 0 && a2 == 0 && k >= 1 && r >= 1 && k <= 16 && n <= 24;
			}
			if (!acc) continue;
			rng_t rng = rng_make(g_run.seed, 1600 + k * 32 + r, sp);
			cfg_t c = { 5, 0, k, r, (uint32_t[]){ 1, 4, 7, 16, 33 }[(k + r + sp) % 5], 0, 0 };
			block_t b;
			if (!rep_case("2d-encode k=%u r=%u L=%u", k, r, c.L)) { if (rep_is_resume_point()) continue; const char *sv = g_prop; g_prop = ""; int rc = block_build(&b, &c, PAY_RANDOM, &rng, 0, -1); g_prop = sv; if (rc) { block_free(&b); continue; } }
			else {
				g_session_preprobe = 1;
				int rc = block_build(&b, &c, PAY_RANDOM, &rng, sp == 0 ? rng_u64(&rng) : 0, -1);
				g_session_preprobe = 0;
				rep_case_done(1, 0, 1);
				if (rc) { if (rc > 0) rep_viol("2d-encode", "configuration accepted by the probe is rejected now"); block_free(&b); continue; }
			}
			if (block_oracle(&b)) { rep_viol("2d-encode", "identity-payload encoding failed"); block_free(&b); continue; }
			if (sp == 0 && rep_case("2d-structure k=%u r=%u", k, r)) {
				char why[200] = "";
				if (!product_structure(&b, why, sizeof why)) { char key[64]; snprintf(key, sizeof key, "2d-structure:%u,%u", k, r); rep_viol(key, "%s", why); }
				/* the emitted codeword satisfies every check (random payload) */
				uint8_t *acc2 = malloc(c.L + 1);
				for (uint32_t j = 0; j < r; j++) {
					memcpy(acc2, b.sym[k + j], c.L);
					for (uint32_t i = 0; i < k; i++) if (b.g[(size_t)j * b.gw + i / 64] >> (i % 64) & 1) for (uint32_t x = 0; x < c.L; x++) acc2[x] ^= b.sym[i][x];
					for (uint32_t x = 0; x < c.L; x++) if (acc2[x]) { rep_viol("2d-encode", "check %u is not satisfied by the emitted codeword", j); break; }
				}
				free(acc2);
				rep_count("structures_verified", 1);
				rep_case_done(1, 0, 1);
			}
			/* decoding: all 2^n received subsets for n <= 16 (quick) / every accepted n (thorough); larger ones sampled + all single and double losses */
			int exhaustive = T || n <= 16;
			if (exhaustive) {
				uint64_t lo = n <= 14 ? 0 : sp << 14, hi = n <= 14 ? (1ULL << n) : lo + (1ULL << 14);
				for (uint64_t mask = lo; mask < hi; mask++) {
					uint64_t h = hash64(hash64(g_run.seed, mask), k * 64 + r);
					int api = (int)(h & 1), order = api ? 0 : (int)((h >> 1) % 3), cb = (h >> 5) % 4 == 0 ? 1 + (int)((h >> 9) % 4) : 0;
					int finish = (h >> 13) % 8 != 0;
					int trunc = (h >> 17) % 16 == 0 ? (int)((h >> 23) % (n + 1)) : -1;
					decode_case(&b, mask, api, order, cb, finish, trunc, &rng);
				}
				rep_count("subsets_enumerated_exhaustively", hi - lo);
			} else {
				uint64_t full = (n == 64) ? ~0ULL : ((1ULL << n) - 1);
				if (sp == 0) {
					for (uint32_t a = 0; a < n; a++) { decode_case(&b, full & ~(1ULL << a), (int)(a & 1), 0, 0, 1, -1, &rng);
						for (uint32_t c2 = a + 1; c2 < n; c2++) decode_case(&b, full & ~(1ULL << a) & ~(1ULL << c2), (int)((a + c2) & 1), (int)((a + c2) % 3), 0, 1, -1, &rng); }
				}
				for (int s = 0; s < 1500; s++) {
					uint64_t mask = rng_u64(&rng) & full; if (s & 1) mask |= rng_u64(&rng) & full;
					uint64_t h = hash64(g_run.seed + sp, mask);
					int api = (int)(h & 1);
					decode_case(&b, mask, api, api ? 0 : (int)((h >> 1) % 3), (h >> 5) % 4 == 0 ? 1 + (int)((h >> 9) % 4) : 0, (h >> 13) % 8 != 0, -1, &rng);
				}
			}
			block_free(&b);
		}
	}
	return 0;
}
