/* Application-side memory with known provenance (DESIGN.md §3.2 "Arena"). */
#ifndef OFH_ARENA_H
#define OFH_ARENA_H
#include <stddef.h>
#include <stdint.h>
enum { AR_SYM = 1, AR_PTRTAB, AR_CBBUF, AR_KERNEL, AR_OTHER };
void  ar_init(void);                       /* installs the fault handlers on non-sanitizer builds */
/* exact-size buffer; `align` in 0..7 requests (address mod 8) == align where the variant can honour it */
void *ar_alloc(size_t len, unsigned align, int role, long tag);
void  ar_free(void *p);
void  ar_ro(void *p);                      /* library must not write: PROT_READ (rel) / checksum (asan) */
void  ar_rw(void *p);
int   ar_check(void *p);                   /* 0 ok; 1 = a read-only buffer changed or a canary was hit */
int   ar_owns(const void *p);              /* does p point into a live arena buffer? */
uint64_t ar_bytes_protected(void);
extern const char *ar_variant;
#endif
