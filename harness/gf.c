#include "gf.h"
unsigned gfo_poly(int m) { return m == 4 ? 0x13u : 0x11Du; }
unsigned gfo_mul(int m, unsigned a, unsigned b)
{
	unsigned p = 0, poly = gfo_poly(m), top = 1u << m;
	while (b) {
		if (b & 1) p ^= a;
		b >>= 1; a <<= 1;
		if (a & top) a ^= poly;
	}
	return p;
}
unsigned gfo_pow(int m, unsigned a, unsigned e)
{
	unsigned r = 1;
	while (e) { if (e & 1) r = gfo_mul(m, r, a); a = gfo_mul(m, a, a); e >>= 1; }
	return r;
}
unsigned gfo_inv(int m, unsigned a) { return gfo_pow(m, a, (1u << m) - 2); }
unsigned gfo_exp(int m, unsigned i) { return gfo_pow(m, 2, i % ((1u << m) - 1)); }
int gfo_log(int m, unsigned a)
{
	unsigned x = 1;
	for (int i = 0; i < (1 << m) - 1; i++) { if (x == a) return i; x = gfo_mul(m, x, 2); }
	return -1;
}
int gfo_selftest(void)
{
	for (int m = 4; m <= 8; m += 4) {
		unsigned q = 1u << m;
		/* x has full order: powers 0..q-2 are pairwise distinct and non-zero */
		unsigned char seen[256] = {0}; unsigned x = 1;
		for (unsigned i = 0; i < q - 1; i++) { if (!x || x >= q || seen[x]) return 1; seen[x] = 1; x = gfo_mul(m, x, 2); }
		if (x != 1) return 2;
		for (unsigned a = 0; a < q; a++) {
			if (gfo_mul(m, a, 1) != a || gfo_mul(m, a, 0) != 0) return 3;
			if (a && gfo_mul(m, a, gfo_inv(m, a)) != 1) return 4;
			if (a && gfo_exp(m, (unsigned)gfo_log(m, a)) != a) return 5;
			for (unsigned b = 0; b < q; b++) {
				if (gfo_mul(m, a, b) != gfo_mul(m, b, a)) return 6;
				if (gfo_mul(m, a, b) >= q) return 7;
			}
		}
		/* distributivity and associativity on a sample grid (exhaustive for m=4) */
		unsigned step = m == 4 ? 1 : 7;
		for (unsigned a = 0; a < q; a += step) for (unsigned b = 0; b < q; b += step) for (unsigned c = 0; c < q; c += step) {
			if (gfo_mul(m, a, b ^ c) != (gfo_mul(m, a, b) ^ gfo_mul(m, a, c))) return 8;
			if (gfo_mul(m, a, gfo_mul(m, b, c)) != gfo_mul(m, gfo_mul(m, a, b), c)) return 9;
		}
	}
	return 0;
}
