/* temporary stubs while the harness is being built */
#include "common.h"
#include "have.h"
#define STUB(f) int f(void) { rep_fatal(#f " not built yet"); }
#ifndef HAVE_CODEC
STUB(p_codec)
#endif
#ifndef HAVE_C05
STUB(p_c05)
#endif
#ifndef HAVE_C06
STUB(p_c06)
#endif
#ifndef HAVE_C09
STUB(p_c09)
#endif
#ifndef HAVE_C12
STUB(p_c12)
#endif
#ifndef HAVE_C15
STUB(p_c15)
#endif
#ifndef HAVE_C16
STUB(p_c16)
#endif
#ifndef HAVE_C17
STUB(p_c17)
#endif
#ifndef HAVE_C18
STUB(p_c18)
#endif
