/* History driver, shadow model and monitors for codec sessions (see session.h, DESIGN.md §3.2/§5). */
#include "session.h"
#include "arena.h"
#include "ledger.h"
#include "of_openfec_api.h"
#include <unistd.h>

const char *g_prop = "";
#define ON(p) (!strcmp(g_prop, p))

const char *codec_name(const cfg_t *c)
{
	switch (c->codec) { case 1: return "rs28"; case 2: return c->m == 4 ? "rs2m4" : "rs2m8"; case 3: return "ldpc"; case 5: return "2d"; default: return "?"; }
}

int cfg_params(const cfg_t *c, void *buf)
{
	memset(buf, 0, 32);
	switch (c->codec) {
	case 1: { of_rs_parameters_t *p = buf; p->nb_source_symbols = c->k; p->nb_repair_symbols = c->r; p->encoding_symbol_length = c->L; return 0; }
	case 2: { of_rs_2_m_parameters_t *p = buf; p->nb_source_symbols = c->k; p->nb_repair_symbols = c->r; p->encoding_symbol_length = c->L; p->m = (UINT16)c->m; return 0; }
	case 3: { of_ldpc_parameters_t *p = buf; p->nb_source_symbols = c->k; p->nb_repair_symbols = c->r; p->encoding_symbol_length = c->L; p->prng_seed = (INT32)c->seed; p->N1 = (UINT8)c->N1; return 0; }
	case 5: { of_2d_parity_parameters_t *p = buf; p->nb_source_symbols = c->k; p->nb_repair_symbols = c->r; p->encoding_symbol_length = c->L; return 0; }
	}
	return -1;
}

/* ---- ledger verdict at release (C08 / C16) ---- */
static void ledger_verdict(const cfg_t *c, const char *where)
{
	if (g_led_bad_free) {
		char key[120]; snprintf(key, sizeof key, "double-free:%s", codec_name(c));
		if (ON("C08") || ON("C16") || ON("C07")) rep_viol(key, "free of a pointer the library does not own (%p) site=%p at %s", g_led_bad_free_ptr, g_led_bad_free_site, where);
		g_led_bad_free = 0;
	}
	uint64_t live = led_live_count();
	if (live && (ON("C08") || ON("C16"))) {
		led_ent_t e[4]; size_t n = led_live(e, 4);
		char key[120]; snprintf(key, sizeof key, "leak:%s", codec_name(c));
		char sites[400] = ""; int o = 0;
		for (size_t i = 0; i < n && i < 4; i++) {
			o += snprintf(sites + o, sizeof sites - (size_t)o, " [size=%zu site=%p", e[i].size, e[i].site);
			for (int f = 0; f < 5 && e[i].bt[f]; f++) o += snprintf(sites + o, sizeof sites - (size_t)o, " bt=%p", e[i].bt[f]);
			o += snprintf(sites + o, sizeof sites - (size_t)o, "]");
		}
		rep_viol(key, "LEAKSITES %llu block(s) still allocated after release at %s:%s", (unsigned long long)live, where, sites);
	}
	rep_count("ledger_allocations", g_led_allocs); rep_count("ledger_frees", g_led_frees);
	g_led_allocs = g_led_frees = 0;
}

/* ---------------------------------------------------------------------------------------------
 * encoder session
 * ------------------------------------------------------------------------------------------- */
static void fill_payload(uint8_t *p, uint32_t L, uint32_t i, uint32_t k, int payload, rng_t *rng)
{
	if (payload == PAY_IDENTITY) { memset(p, 0, L); if (i / 8 < L) p[i / 8] = (uint8_t)(1u << (i % 8)); }
	else if (payload == PAY_BYTEUNIT) { memset(p, 0, L); if (i < L) p[i] = 1; }
	else for (uint32_t b = 0; b < L; b++) p[b] = (uint8_t)rng_u64(rng);
	if (payload == PAY_SPARSE) {
		/* structured contents: whole symbols of zeros, zero 64-bit words, zero bytes, a zero tail (padding), two equal symbols */
		switch (rng_below(rng, 7)) {
		case 5: for (uint32_t b = 0; b + 16 <= L; b += 16) {      /* 16-byte blocks whose 64-bit halves are x,-x / x,x / x,~x */
				uint64_t x = rng_u64(rng), y = rng_below(rng, 3) == 0 ? (uint64_t)0 - x : rng_below(rng, 2) ? x : ~x;
				memcpy(p + b, &x, 8); memcpy(p + b + 8, &y, 8); } break;
		case 0: memset(p, 0, L); break;
		case 1: for (uint32_t b = 0; b < L; b += 8) if (rng_below(rng, 2)) memset(p + b, 0, L - b < 8 ? L - b : 8); break;
		case 2: for (uint32_t b = 0; b < L; b++) if (rng_below(rng, 3)) p[b] = 0; break;
		case 3: { uint32_t a = rng_below(rng, L + 1); memset(p + a, 0, L - a); } break;
		case 4: memset(p, (int)(i & 1 ? 0xFF : 0x01), L); break;
		default: break;
		}
	}
	(void)k;
}

int g_session_preprobe;
unsigned g_session_verbosity;   /* verbosity handed to of_create_codec_instance (what the library prints is discarded) */
int g_force_closure_monitor;     /* the peeling-closure monitor of C04 reports under the current property (used by C09) */
static void preprobe(of_session_t *unused, const cfg_t *c, int type)
{
	/* of_openfec_api.h: after OF_STATUS_FATAL_ERROR "the caller is expected to stop using this codec instance immediately", and that
	 * is what a refused of_set_fec_parameters returns. So the refused sets go to instances of their own, which are then released
	 * (nothing else is done with them); the session under test starts on a fresh instance right afterwards. */
	(void)unused;
	cfg_t bad[2] = { *c, *c }; char pb[32];
	switch (c->codec) {
	case 5: bad[0].r = 1; bad[1].r = c->r > 2 ? c->r - 1 : 1; if (c->k == 4 || c->k == 9 || c->k == 16) bad[1].r = 1; break;  /* r = 1 is never d + l; r - 1 is not for non-square k */
	case 3: bad[0].N1 = c->r + 1 > 255 ? 2 : c->r + 1; bad[1].seed = 0; break;
	default: bad[0].k = 0; bad[1].r = 0; break;
	}
	for (int i = 0; i < 2; i++) {
		if (c->codec == 5 && bad[i].r != 1) {
			/* only offer what cannot be a grid: no d*l = k with d + l = r */
			int grid = 0; for (uint32_t d = 1; d <= bad[i].k; d++) if (bad[i].k % d == 0 && d + bad[i].k / d == bad[i].r) grid = 1;
			if (grid) continue;
		}
		cfg_params(&bad[i], pb);
		of_session_t *ses = NULL;
		LIB_ENTER(); of_status_t st = of_create_codec_instance(&ses, (of_codec_id_t)c->codec, (of_codec_type_t)type, 0); LIB_LEAVE();
		if (st != OF_STATUS_OK || !ses) continue;
		LIB_ENTER(); st = of_set_fec_parameters(ses, (of_parameters_t *)pb); LIB_LEAVE();
		LIB_ENTER(); of_release_codec_instance(ses); LIB_LEAVE();
		if (st == OF_STATUS_OK) { char key[96]; snprintf(key, sizeof key, "accept-outside:%s:preprobe", codec_name(c)); if (ON("C09")) rep_viol(key, "k=%u r=%u N1=%u seed=%u accepted", bad[i].k, bad[i].r, bad[i].N1, bad[i].seed); rep_count("preprobe_parameter_sets_accepted", 1); }
		else rep_count("refused_parameter_sets_offered_before_the_real_ones", 1);
	}
}

int block_build(block_t *b, const cfg_t *c, int payload, rng_t *rng, uint64_t nullslot_mask, int early_release_after)
{
	memset(b, 0, sizeof *b);
	b->c = *c; b->n = c->k + c->r;
	uint32_t n = b->n, k = c->k, L = c->L;
	of_session_t *ses = NULL; char pbuf[32]; of_status_t st;
	led_reset(); g_led_bad_free = 0;
	LIB_ENTER(); st = of_create_codec_instance(&ses, (of_codec_id_t)c->codec, OF_ENCODER, g_session_verbosity); LIB_LEAVE();
	rep_count("api_create", 1);
	if (st != OF_STATUS_OK || !ses) { rep_viol("encoder-create-failed", "codec=%s status=%d", codec_name(c), st); return -1; }
	if (g_session_preprobe) preprobe(ses, c, OF_ENCODER);
	cfg_params(c, pbuf);
	LIB_ENTER(); st = of_set_fec_parameters(ses, (of_parameters_t *)pbuf); LIB_LEAVE();
	rep_count("api_set_fec_parameters", 1);
	if (st != OF_STATUS_OK) {
		LIB_ENTER(); of_release_codec_instance(ses); LIB_LEAVE();
		ledger_verdict(c, "encoder-rejected-config");
		return 1;
	}
	if (c->codec == 3) {
		UINT32 isnull = 0;
		LIB_ENTER(); st = of_get_control_parameter(ses, OF_CRTL_LDPC_STAIRCASE_IS_LAST_SYMBOL_NULL, &isnull, sizeof isnull); LIB_LEAVE();
		b->null_claim = st == OF_STATUS_OK && isnull;
	}
	b->sym = calloc(n + 1, sizeof *b->sym);
	b->slab = n > 1500;
	if (b->slab) {
		b->slab_base = ar_alloc((size_t)n * L, 0, AR_SYM, -1);
		for (uint32_t i = 0; i < n; i++) b->sym[i] = b->slab_base + (size_t)i * L;
	} else
		for (uint32_t i = 0; i < n; i++) b->sym[i] = ar_alloc(L, (unsigned)(rng_u64(rng) & 7), AR_SYM, (long)i);
	for (uint32_t i = 0; i < k; i++) fill_payload(b->sym[i], L, i, k, payload, rng);
	if (payload == PAY_SPARSE && !b->slab && (rng_u64(rng) & 1)) {
		/* source symbols with equal contents handed over in ONE buffer (an application that stores equal packets once; the library
		 * only reads them): among the first 64 sources, each later twin of an earlier symbol shares that symbol's buffer */
		for (uint32_t i = 1; i < k && i < 64; i++) for (uint32_t j = 0; j < i; j++)
			if (b->sym[j] != b->sym[i] && !memcmp(b->sym[j], b->sym[i], L)) { int unique = 1; for (uint32_t q = 0; q < i; q++) if (q != j && b->sym[q] == b->sym[i]) unique = 0; if (unique) { ar_free(b->sym[i]); b->sym[i] = b->sym[j]; rep_count("source_symbols_sharing_a_buffer_with_an_equal_one", 1); } break; }
	}
	for (uint32_t i = k; i < n; i++) memset(b->sym[i], 0xA5, L);
	if (!b->slab) for (uint32_t i = 0; i < k; i++) ar_ro(b->sym[i]);
	uint64_t srcsum = 0;
	if (b->slab) srcsum = hash_bytes(b->slab_base, (size_t)k * L, 3);
	void **tab = ar_alloc((size_t)n * sizeof(void *), 0, AR_PTRTAB, 0);
	for (uint32_t i = 0; i < n; i++) tab[i] = b->sym[i];
	int rc = 0;
	uint32_t built = 0;
	for (uint32_t esi = k; esi < n; esi++) {
		if (early_release_after >= 0 && built >= (uint32_t)early_release_after) break;
		int nullslot = (nullslot_mask >> (esi & 63)) & 1;
		if (nullslot) tab[esi] = NULL;
		LIB_ENTER(); st = of_build_repair_symbol(ses, tab, esi); LIB_LEAVE();
		rep_count("api_build_repair_symbol", 1); built++;
		if (st != OF_STATUS_OK) { rep_viol("encoder-build-failed", "codec=%s esi=%u status=%d nullslot=%d", codec_name(c), esi, st, nullslot); rc = -1; break; }
		if (nullslot) {
			rep_count("null_output_slots", 1);
			if (!tab[esi]) { char key[64]; snprintf(key, sizeof key, "null-slot:%s", codec_name(c)); if (ON("C06")) rep_viol(key, "NULL output slot not replaced (esi=%u)", esi); rc = -1; break; }
			if (ar_owns(tab[esi]) || !led_is_lib(tab[esi])) { char key[64]; snprintf(key, sizeof key, "null-slot:%s", codec_name(c)); if (ON("C06")) rep_viol(key, "slot replaced by a pointer that is not a fresh library allocation (esi=%u)", esi); rc = -1; break; }
			memcpy(b->sym[esi], tab[esi], L);
			led_handover(tab[esi]);
			free(tab[esi]);                  /* documented: the application owns it */
			tab[esi] = b->sym[esi];
		}
	}
	LIB_ENTER(); st = of_release_codec_instance(ses); LIB_LEAVE();
	rep_count("api_release", 1);
	ledger_verdict(c, "encoder-release");
	if (ar_check(tab)) { if (ON("C07")) rep_viol("modified:pointer-table:encoder", "canary/contents of the encoder's symbol table damaged"); }
	for (uint32_t i = 0; i < n && rc == 0; i++) if (tab[i] != b->sym[i]) { if (ON("C07") || ON("C06")) rep_viol("modified:pointer-table:encoder", "entry %u of the application's table was changed", i); break; }
	ar_free(tab);
	/* sources must be untouched (PROT_READ on rel; checksum elsewhere) */
	if (!b->slab) { for (uint32_t i = 0; i < k; i++) if (ar_check(b->sym[i])) { if (ON("C06") || ON("C07")) rep_viol("source-modified", "codec=%s source %u changed during encoding", codec_name(c), i); rc = -1; break; } }
	else if (hash_bytes(b->slab_base, (size_t)k * L, 3) != srcsum) { if (ON("C06") || ON("C07")) rep_viol("source-modified", "codec=%s a source changed during encoding (slab)", codec_name(c)); rc = -1; }
	if (!b->slab) for (uint32_t i = k; i < n; i++) ar_ro(b->sym[i]); else ar_ro(b->slab_base);
	return rc;
}

void block_free(block_t *b)
{
	if (b->sym) {
		if (b->slab) ar_free(b->slab_base); else for (uint32_t i = 0; i < b->n; i++) { int shared = 0; for (uint32_t j = 0; j < i && j < 64; j++) if (b->sym[j] == b->sym[i]) shared = 1; if (b->sym[i] && !shared) ar_free(b->sym[i]); }
		free(b->sym);
	}
	free(b->g); gf2_sys_free(b->sys);
	memset(b, 0, sizeof *b);
}

int block_oracle(block_t *b)
{
	if (b->g) return 0;
	if (b->c.codec != 3 && b->c.codec != 5) return -1;
	cfg_t c = b->c; uint32_t k = c.k, r = c.r, n = b->n;
	b->gw = (k + 63) / 64;
	c.L = b->gw * 8;
	block_t id; rng_t dummy = rng_make(1, 2, 3);
	const char *saved = g_prop; g_prop = "";       /* the identity encoding is oracle construction, not a monitored case */
	int rc = block_build(&id, &c, PAY_IDENTITY, &dummy, 0, -1);
	g_prop = saved;
	if (rc) { block_free(&id); return -1; }
	b->g = calloc((size_t)r * b->gw + 1, 8);
	for (uint32_t j = 0; j < r; j++) memcpy(b->g + (size_t)j * b->gw, id.sym[k + j], (size_t)b->gw * 8);
	block_free(&id);
	/* equations over ESIs */
	unsigned *len = calloc(r + 1, sizeof *len); unsigned **eq = calloc(r + 1, sizeof *eq);
	uint64_t *S = malloc((size_t)b->gw * 8 + 8);
	for (uint32_t j = 0; j < r; j++) {
		for (unsigned w = 0; w < b->gw; w++) S[w] = b->g[(size_t)j * b->gw + w] ^ ((c.codec == 3 && j) ? b->g[(size_t)(j - 1) * b->gw + w] : 0);
		unsigned cnt = 0; for (unsigned w = 0; w < b->gw; w++) cnt += (unsigned)__builtin_popcountll(S[w]);
		eq[j] = malloc((cnt + 3) * sizeof(unsigned));
		for (uint32_t i = 0; i < k; i++) if (S[i / 64] >> (i % 64) & 1) eq[j][len[j]++] = i;
		eq[j][len[j]++] = k + j;
		if (c.codec == 3 && j) eq[j][len[j]++] = k + j - 1;
	}
	b->sys = gf2_sys_new(r, n, len, eq);
	for (uint32_t j = 0; j < r; j++) free(eq[j]);
	free(eq); free(len); free(S);
	return 0;
}

int oracle_solvable(const block_t *b, const uint8_t *received)
{
	uint32_t k = b->c.k, r = b->c.r;
	unsigned *colmap = malloc((k + 1) * sizeof *colmap), nu = 0;
	for (uint32_t i = 0; i < k; i++) colmap[i] = received[i] ? ~0u : nu++;
	if (!nu) { free(colmap); return 1; }
	unsigned words = (nu + 63) / 64, nrows = 0;
	for (uint32_t j = 0; j < r; j++) if (received[k + j]) nrows++;
	if (nrows < nu) { free(colmap); return 0; }
	uint64_t *rows = calloc((size_t)nrows * words + 1, 8); unsigned rr = 0;
	for (uint32_t j = 0; j < r; j++) {
		if (!received[k + j]) continue;
		const uint64_t *g = b->g + (size_t)j * b->gw;
		for (uint32_t i = 0; i < k; i++) if ((g[i / 64] >> (i % 64) & 1) && colmap[i] != ~0u) rows[(size_t)rr * words + colmap[i] / 64] ^= 1ULL << (colmap[i] % 64);
		rr++;
	}
	unsigned rk = gf2_rank(rows, nrows, words);
	free(rows); free(colmap);
	return rk == nu;
}

/* ---------------------------------------------------------------------------------------------
 * decoder session
 * ------------------------------------------------------------------------------------------- */
typedef struct {
	const block_t *b; const hist_t *hi; unsigned mon; hres_t *res;
	of_session_t *ses;
	uint32_t k, n, L;
	uint8_t *submitted, *sub_unknown, *avail, *cbcount, *stage, *received;
	void **prev, **cbbuf, **tab;
	void **allcb; size_t nallcb, capallcb;
	void **dups; size_t ndups, capdups;
	int in_nested, claim0;
	int complete_prev, in_finish, cur_call, rs;
	gf2_peel_t *peel;
	const char *cname;
} hctx_t;

static void key2(char *out, size_t n, const char *a, const char *b) { snprintf(out, n, "%s:%s", a, b); }

/* ---- a second, complete decoding session run from inside a callback of the session under test (re-entrant use) ---- */
static block_t g_nested[4]; static int g_nested_ok[4];
static int nested_index(const cfg_t *c) { return c->codec == 1 ? 0 : c->codec == 2 ? (c->m == 4 ? 2 : 1) : 3; }
static void nested_prepare(const cfg_t *outer)
{
	int i = nested_index(outer);
	if (g_nested_ok[i]) return;
	static const cfg_t nc[4] = { {1,0,12,8,16,0,0}, {2,8,12,8,16,0,0}, {2,4,6,7,16,0,0}, {3,0,12,8,16,3,7} };
	cfg_t c = nc[i]; if (outer->codec == 5) return;
	rng_t r = rng_make(77, 78, (uint64_t)i); const char *sv = g_prop; g_prop = "";
	if (block_build(&g_nested[i], &c, PAY_RANDOM, &r, 0, -1) == 0) g_nested_ok[i] = 1;
	g_prop = sv;
}
static void nested_session(const cfg_t *outer)
{
	int i = nested_index(outer); if (outer->codec == 5 || !g_nested_ok[i]) return;
	const block_t *nb = &g_nested[i]; const cfg_t *c = &nb->c; uint32_t k = c->k, n = nb->n; char pb[32], key[96];
	of_session_t *s = NULL; of_status_t st; void *at[32], *tab[16];
	LIB_ENTER(); st = of_create_codec_instance(&s, (of_codec_id_t)c->codec, OF_DECODER, 0); LIB_LEAVE();
	if (st != OF_STATUS_OK || !s) return;
	cfg_params(c, pb);
	LIB_ENTER(); st = of_set_fec_parameters(s, (of_parameters_t *)pb); LIB_LEAVE();
	if (st == OF_STATUS_OK) {
		uint32_t lost = c->codec == 3 ? 2 : k / 2;            /* sources 0..lost-1 are erased */
		for (uint32_t e = 0; e < n; e++) at[e] = e < lost ? NULL : (void *)nb->sym[e];
		LIB_ENTER(); st = of_set_available_symbols(s, at); if (st == OF_STATUS_OK) st = of_finish_decoding(s); LIB_LEAVE();
		LIB_ENTER(); int complete = of_is_decoding_complete(s) ? 1 : 0; LIB_LEAVE();
		memset(tab, 0, sizeof tab);
		LIB_ENTER(); of_status_t st2 = of_get_source_symbols_tab(s, tab); LIB_LEAVE();
		if (c->codec != 3 && !complete) { snprintf(key, sizeof key, "nested-session:%s:incomplete", codec_name(c)); rep_viol(key, "a session run inside another session's callback did not decode from %u >= k symbols (finish status %d)", n - lost, st); }
		if (complete && st2 == OF_STATUS_OK) for (uint32_t e = 0; e < k; e++) {
			if (!tab[e] || memcmp(tab[e], nb->sym[e], c->L)) { snprintf(key, sizeof key, "nested-session:%s:wrong-symbol", codec_name(c)); rep_viol(key, "a session run inside another session's callback returned a wrong source %u", e); break; }
		}
		if (st2 == OF_STATUS_OK) for (uint32_t e = 0; e < k; e++) if (tab[e] && tab[e] != (void *)nb->sym[e] && led_is_lib(tab[e])) led_handover(tab[e]);
		LIB_ENTER(); of_release_codec_instance(s); LIB_LEAVE(); s = NULL;
		if (st2 == OF_STATUS_OK) for (uint32_t e = 0; e < k; e++) if (tab[e] && tab[e] != (void *)nb->sym[e] && !ar_owns(tab[e])) free(tab[e]);
		rep_count("nested_sessions_inside_callbacks", 1);
	}
	if (s) { LIB_ENTER(); of_release_codec_instance(s); LIB_LEAVE(); }
}

static void *cb_source(void *context, UINT32 size, UINT32 esi)
{
	hctx_t *h = context; int saved = g_in_lib; g_in_lib = 0;
	void *ret = NULL; char key[96];
	h->res->callbacks++;
	rep_count("callbacks_observed", 1);
	if (esi >= h->k || size != h->L) {
		if (ON("C11")) { key2(key, sizeof key, "cb-bad-args", h->cname); rep_viol(key, "callback esi=%u size=%u (k=%u L=%u)", esi, size, h->k, h->L); }
		g_in_lib = saved; return NULL;
	}
	if (h->submitted[esi] && ON("C11")) { key2(key, sizeof key, "cb-for-received", h->cname); rep_viol(key, "callback for esi=%u which the application had already submitted", esi); }
	if (h->cbcount[esi]++ && ON("C11")) { key2(key, sizeof key, "cb-duplicate", h->cname); rep_viol(key, "second callback for esi=%u", esi); }
	if (h->hi->reenter && !h->in_nested) { h->in_nested = 1; nested_session(&h->b->c); h->in_nested = 0; }
	int give;
	switch (h->hi->cbmode) {
	case 2: give = 0; break;
	case 3: give = (h->res->callbacks & 1); break;
	case 4: give = !(esi & 1); break;
	default: give = 1; break;
	}
	if (give) {
		ret = ar_alloc(h->L, esi & 7, AR_CBBUF, (long)esi);
		memset(ret, 0xEE, h->L);
		if (h->nallcb == h->capallcb) { h->capallcb = h->capallcb ? h->capallcb * 2 : 16; h->allcb = realloc(h->allcb, h->capallcb * sizeof(void *)); }
		h->allcb[h->nallcb++] = ret;
		h->cbbuf[esi] = ret;
	} else { h->res->null_callbacks++; rep_count("callbacks_returning_null", 1); }
	g_in_lib = saved;
	return ret;
}
static void *cb_repair(void *context, UINT32 size, UINT32 esi)
{
	(void)context; (void)size; (void)esi;
	rep_count("repair_callbacks_observed", 1);
	return NULL;     /* documented: "this one is not expected to return any data buffer" */
}

/* observe the session after an API call */
static void snapshot(hctx_t *h, int final)
{
	const block_t *b = h->b; char key[120]; uint32_t k = h->k;
	LIB_ENTER(); int complete = of_is_decoding_complete(h->ses) ? 1 : 0; LIB_LEAVE();
	for (uint32_t i = 0; i < k; i++) h->tab[i] = (void *)(uintptr_t)0x5A5A5A5A5A5A5A5AULL;
	LIB_ENTER(); of_status_t st = of_get_source_symbols_tab(h->ses, h->tab); LIB_LEAVE();
	h->res->lib_calls += 2;
	int tab_ok = st == OF_STATUS_OK;
	if (!tab_ok && !h->rs && (ON("C10") || ON("C16"))) { key2(key, sizeof key, "get-tab-status", h->cname); rep_viol(key, "of_get_source_symbols_tab returned %d", st); }
	uint32_t navail = 0;
	for (uint32_t i = 0; i < k; i++) {
		void *p = tab_ok ? h->tab[i] : NULL;
		if (tab_ok && p == (void *)(uintptr_t)0x5A5A5A5A5A5A5A5AULL) {
			if (ON("C10") || ON("C01")) { key2(key, sizeof key, "tab-entry-not-written", h->cname); rep_viol(key, "entry %u left untouched by of_get_source_symbols_tab", i); }
			p = NULL;
		}
		int now = p != NULL;
		navail += (uint32_t)now;
		if (now && (p != h->prev[i] || final)) {
			/* C01: every available source symbol is byte-identical to the encoded one */
			/* the application reads what the library hands over: under C07 this read is what lets ASan / memcheck see a
			 * dangling or short buffer; under C03 "recovers" means the right bytes, not only the completion flag */
			if ((h->mon & (MON_C01 | MON_C16 | MON_C11 | MON_C07 | MON_C03)) && memcmp(p, b->sym[i], h->L)) {
				const char *stg = h->in_finish ? "finish" : "submission";
				if (ON("C01")) { snprintf(key, sizeof key, "wrong-symbol:%s:%s", h->cname, stg); rep_viol(key, "source %u differs from the encoded symbol", i); }
				if (ON("C16")) rep_viol("2d-wrong-symbol", "source %u differs from the encoded symbol", i);
				if (ON("C15")) rep_viol("null-claim-decoder-assumption-wrong", "a decoder session that assumes a null last repair symbol rebuilt source %u with wrong bytes (k=%u r=%u N1=%u seed=%u L=%u)", i, b->c.k, b->c.r, b->c.N1, b->c.seed, h->L);
				if (ON("C03") && h->in_finish) rep_viol("ml-recovered-wrong-symbol", "of_finish_decoding made source %u available with bytes that differ from the encoded symbol", i);
				if (ON("C02")) { snprintf(key, sizeof key, "mds-fail:%s", h->cname); rep_viol(key, "decoded source %u is wrong", i); }
				if (ON("C11") && !h->submitted[i]) { snprintf(key, sizeof key, "cb-buffer-not-filled:%s", h->cname); rep_viol(key, "decoded source %u does not hold the decoded value", i); }
			}
		}
		if (now && !h->avail[i]) {
			/* became available since the last observation */
			if (!h->sub_unknown[i]) {
				h->stage[i] = h->in_finish ? 2 : 1;
				if (h->in_finish) { h->res->decoded_fin++; rep_count("decoded_during_finish", 1); } else { h->res->decoded_it++; rep_count("decoded_during_submission", 1); }
				if ((h->mon & MON_C11) && ON("C11") && h->hi->cbmode) {
					const char *stg = h->in_finish ? "finish" : "submission";
					if (h->hi->snap_every == 1 || final) {
						if (!h->cbcount[i] && !h->submitted[i]) { snprintf(key, sizeof key, "cb-missing:%s:%s", h->cname, stg); rep_viol(key, "source %u was decoded without a callback", i); }
					}
					if (h->cbcount[i] && !h->submitted[i]) {
						if (h->cbbuf[i]) {
							if (p != h->cbbuf[i]) { snprintf(key, sizeof key, "cb-buffer-not-used:%s:%s", h->cname, stg); rep_viol(key, "source %u: table reports %p, callback returned %p", i, p, h->cbbuf[i]); }
						} else if (ar_owns(p) || !led_is_lib(p)) { snprintf(key, sizeof key, "cb-null-not-allocated:%s", h->cname); rep_viol(key, "source %u: callback returned NULL but the table entry is not a library allocation", i); }
					}
				}
				if ((h->mon & MON_C11) && ON("C11") && !h->hi->cbmode && !h->submitted[i] && (ar_owns(p) || !led_is_lib(p))) {
					snprintf(key, sizeof key, "decoded-not-allocated:%s", h->cname); rep_viol(key, "source %u decoded without callback is not a library allocation", i);
				}
			}
		}
		if (!now && h->avail[i] && (ON("C10") || ON("C01"))) { key2(key, sizeof key, "symbol-reverted", h->cname); rep_viol(key, "source %u was available and is not any more", i); }
		/* C10: pointer preservation for symbols submitted while unknown */
		if (now && h->sub_unknown[i] && p != b->sym[i] && ON("C10") && h->hi->snap_every == 1) { key2(key, sizeof key, "pointer-not-preserved", h->cname); rep_viol(key, "source %u: submitted %p, table reports %p", i, (void *)b->sym[i], p); }
		h->avail[i] = (uint8_t)now; h->prev[i] = p;
	}
	int all = navail == k;
	if (h->rs && !tab_ok) all = 0;
	if (complete != all) {
		if (ON("C10")) { key2(key, sizeof key, "complete-flag-mismatch", h->cname); rep_viol(key, "is_decoding_complete=%d but %u/%u sources available (tab status %d)", complete, navail, k, st); }
		if (ON("C01") && complete) { key2(key, sizeof key, "complete-with-null", h->cname); rep_viol(key, "complete reported with %u/%u sources available", navail, k); }
		if (ON("C02") && complete && h->rs) { snprintf(key, sizeof key, "mds-fail:%s", h->cname); rep_viol(key, "decoding reported complete but only %u/%u source symbols were returned (table status %d)", navail, k, st); }
	}
	if (h->complete_prev && !complete && ON("C10")) { key2(key, sizeof key, "complete-reverted", h->cname); rep_viol(key, "completion reported earlier and not any more"); }
	/* C04: streaming availability equals the peeling closure */
	if ((h->mon & MON_C04) && h->peel && !h->in_finish && h->hi->api == 0 && (ON("C04") || g_force_closure_monitor)) {
		int closure_all = 1;
		for (uint32_t i = 0; i < k; i++) {
			if (!h->peel->known[i]) closure_all = 0;
			if (h->peel->known[i] && !h->avail[i]) { rep_viol("it-missed-symbol", "source %u is in the peeling closure but not available", i); break; }
			if (!h->peel->known[i] && h->avail[i]) { rep_viol("it-extra-symbol", "source %u is available but not in the peeling closure", i); break; }
		}
		if (closure_all != complete) rep_viol("it-complete-flag", "complete=%d but closure-contains-all-sources=%d", complete, closure_all);
		rep_count("prefix_checks", 1);
	}
	h->complete_prev = complete; h->res->complete = complete;
}

static void submit_mark(hctx_t *h, uint32_t esi)
{
	if (esi < h->k && !h->avail[esi] && !h->submitted[esi]) h->sub_unknown[esi] = 1;
	if (!h->received[esi]) { h->received[esi] = 1; h->res->n_received_distinct++; }
	h->submitted[esi] = 1;
	if (h->peel) gf2_peel_add(h->peel, esi);
}

void run_history(const block_t *b, const hist_t *hi, unsigned mon, hres_t *res)
{
	hctx_t H; memset(&H, 0, sizeof H); memset(res, 0, sizeof *res);
	const cfg_t *c = &b->c; char key[120];
	H.b = b; H.hi = hi; H.mon = mon; H.res = res; H.k = c->k; H.n = b->n; H.L = c->L; H.cname = codec_name(c);
	H.rs = c->codec == 1 || c->codec == 2;
	res->oracle_solvable = -1; res->finish_status = -1;
	uint32_t k = H.k, n = H.n;
	of_status_t st; char pbuf[32];
	if (hi->reenter) nested_prepare(c);
	led_reset(); g_led_bad_free = 0;
	of_codec_type_t type = hi->roles ? OF_ENCODER_AND_DECODER : OF_DECODER;
	LIB_ENTER(); st = of_create_codec_instance(&H.ses, (of_codec_id_t)c->codec, type, g_session_verbosity); LIB_LEAVE();
	rep_count("api_create", 1); res->lib_calls++;
	if (st != OF_STATUS_OK || !H.ses) { rep_viol("decoder-create-failed", "codec=%s status=%d", H.cname, st); return; }
	if (hi->stop == 1) goto release;
	if (hi->cbmode && hi->cb_early) {
		H.k = c->k; H.L = c->L;
		LIB_ENTER(); st = of_set_callback_functions(H.ses, cb_source, hi->cbmode == 5 ? cb_repair : NULL, &H); LIB_LEAVE();
		res->lib_calls++; rep_count("callbacks_registered_before_the_parameters", 1);
		if (st != OF_STATUS_OK && (ON("C10") || ON("C11"))) { key2(key, sizeof key, "set-callback-status", H.cname); rep_viol(key, "of_set_callback_functions (before of_set_fec_parameters) returned %d", st); }
	}
	if (g_session_preprobe) preprobe(H.ses, c, (int)type);
	cfg_params(c, pbuf);
	LIB_ENTER(); st = of_set_fec_parameters(H.ses, (of_parameters_t *)pbuf); LIB_LEAVE();
	rep_count("api_set_fec_parameters", 1); res->lib_calls++;
	if (st != OF_STATUS_OK) { rep_viol("decoder-rejects-encoder-config", "codec=%s k=%u r=%u status=%d", H.cname, c->k, c->r, st); goto release; }
	res->configured = 1;
	if (hi->stop == 2) goto release;
	H.submitted = calloc(n + 1, 1); H.received = calloc(n + 1, 1); H.sub_unknown = calloc(k + 1, 1); H.avail = calloc(k + 1, 1);
	H.cbcount = calloc(k + 1, 1); H.stage = calloc(k + 1, 1);
	H.prev = calloc(k + 1, sizeof(void *)); H.cbbuf = calloc(k + 1, sizeof(void *));
	H.tab = ar_alloc((size_t)k * sizeof(void *), 0, AR_PTRTAB, 1);
	if ((mon & (MON_C04 | MON_C03)) && b->sys && (c->codec == 3 || c->codec == 5)) H.peel = gf2_peel_new(b->sys);
	if (c->codec == 3) {
		/* the decoder feeds itself the last repair symbol when it claims it is null: counts as received */
		UINT32 isnull = 0;
		LIB_ENTER(); st = of_get_control_parameter(H.ses, OF_CRTL_LDPC_STAIRCASE_IS_LAST_SYMBOL_NULL, &isnull, sizeof isnull); LIB_LEAVE();
		H.claim0 = st == OF_STATUS_OK ? (int)(isnull != 0) : -1;
		if (st == OF_STATUS_OK && isnull) { H.received[n - 1] = 1; if (H.peel) gf2_peel_add(H.peel, n - 1); rep_count("sessions_with_self_injected_null_symbol", 1); }
	}
	if (hi->cbmode && !hi->cb_early) {
		LIB_ENTER(); st = of_set_callback_functions(H.ses, cb_source, hi->cbmode == 5 ? cb_repair : NULL, &H); LIB_LEAVE();
		res->lib_calls++;
		if (st != OF_STATUS_OK && (ON("C10") || ON("C11"))) { key2(key, sizeof key, "set-callback-status", H.cname); rep_viol(key, "of_set_callback_functions returned %d", st); }
	}
	if (hi->roles == 2) {
		/* an encoder+decoder instance that encodes before it decodes */
		void **et = ar_alloc((size_t)n * sizeof(void *), 0, AR_PTRTAB, 2);
		for (uint32_t i = 0; i < n; i++) et[i] = b->sym[i];
		uint8_t *out = ar_alloc(H.L, 0, AR_SYM, -2);
		et[k] = out;
		LIB_ENTER(); st = of_build_repair_symbol(H.ses, et, k); LIB_LEAVE(); res->lib_calls++;
		if (st != OF_STATUS_OK || memcmp(out, b->sym[k], H.L)) rep_viol("both-roles-encode", "codec=%s status=%d", H.cname, st);
		ar_free(out); ar_free(et);
	}
	snapshot(&H, 0);
	/* ---- submissions ---- */
	if (hi->api == 0) {
		for (uint32_t s = 0; s < hi->nsub; s++) {
			uint32_t esi = hi->sub[s];
			int was_complete = H.complete_prev;
			H.cur_call++;
			void *buf = b->sym[esi];
			if (hi->dupcopy && H.submitted[esi] && ((s * 2654435761u) >> 7 & 1)) {
				/* the same symbol again, from another packet buffer */
				buf = ar_alloc(H.L, (unsigned)(s & 7), AR_SYM, -3); memcpy(buf, b->sym[esi], H.L); ar_ro(buf);
				if (H.ndups == H.capdups) { H.capdups = H.capdups ? H.capdups * 2 : 16; H.dups = realloc(H.dups, H.capdups * sizeof(void *)); }
				H.dups[H.ndups++] = buf; rep_count("duplicates_submitted_from_another_buffer", 1);
			}
			int dup_before = H.submitted[esi];
			(void)dup_before;
			submit_mark(&H, esi);
			LIB_ENTER(); st = of_decode_with_new_symbol(H.ses, buf, esi); LIB_LEAVE();
			rep_count("api_decode_with_new_symbol", 1); res->lib_calls++;
			if (st != OF_STATUS_OK && (ON("C10") || ON("C16"))) { snprintf(key, sizeof key, "submit-status:of_decode_with_new_symbol:%s", H.cname); rep_viol(key, "status %d for esi=%u", st, esi); }
			if (hi->snap_every == 1 || (s + 1) % (uint32_t)hi->snap_every == 0 || s + 1 == hi->nsub) snapshot(&H, 0);
			/* C02: the k-th distinct symbol triggers decoding */
			if (H.rs && ON("C02") && (hi->snap_every == 1 || s + 1 == hi->nsub)) {
				if (res->n_received_distinct >= (int)k && !H.complete_prev) { snprintf(key, sizeof key, "mds-fail:%s", H.cname); rep_viol(key, "%d distinct symbols submitted and decoding is not complete", res->n_received_distinct); }
				if (res->n_received_distinct < (int)k && H.complete_prev) { snprintf(key, sizeof key, "complete-below-k:%s", H.cname); rep_viol(key, "complete with %d < k=%u symbols", res->n_received_distinct, k); }
			}
			(void)was_complete;
		}
	} else {
		void **at = ar_alloc((size_t)n * sizeof(void *), 0, AR_PTRTAB, 3);
		memset(at, 0, (size_t)n * sizeof(void *));
		for (uint32_t s = 0; s < hi->nsub; s++) { at[hi->sub[s]] = b->sym[hi->sub[s]]; }
		for (uint32_t e = 0; e < n; e++) if (at[e]) submit_mark(&H, e);
		ar_ro(at);
		H.cur_call++;
		LIB_ENTER(); st = of_set_available_symbols(H.ses, at); LIB_LEAVE();
		rep_count("api_set_available_symbols", 1); res->lib_calls++;
		if (st != OF_STATUS_OK && (ON("C10") || ON("C16"))) { snprintf(key, sizeof key, "submit-status:of_set_available_symbols:%s", H.cname); rep_viol(key, "status %d", st); }
		if (ar_check(at) && ON("C07")) rep_viol("modified:pointer-table:decoder", "the table given to of_set_available_symbols was modified");
		snapshot(&H, 0);
		ar_free(at);
		if (H.rs && ON("C02") && res->n_received_distinct < (int)k && H.complete_prev) { snprintf(key, sizeof key, "complete-below-k:%s", H.cname); rep_viol(key, "complete with %d < k symbols after set_available_symbols", res->n_received_distinct); }
	}
	/* oracles on the received set */
	int closure_all = -1;
	if (H.peel) { closure_all = 1; for (uint32_t i = 0; i < k; i++) if (!H.peel->known[i]) { closure_all = 0; break; } res->it_incomplete = !closure_all; }
	if ((mon & (MON_C03 | MON_C16)) && b->g) res->oracle_solvable = oracle_solvable(b, H.received);
	/* ---- finish ---- */
	if (hi->finish) {
		int was_complete = H.complete_prev;
		H.in_finish = 1; H.cur_call++;
		LIB_ENTER(); st = of_finish_decoding(H.ses); LIB_LEAVE();
		rep_count("api_finish_decoding", 1); res->lib_calls++;
		res->finish_status = st;
		snapshot(&H, 0);
		int complete = H.complete_prev;
		if (ON("C10") || ON("C16")) {
			if (!((st == OF_STATUS_OK && complete) || (st == OF_STATUS_FAILURE && !complete))) {
				snprintf(key, sizeof key, "finish-status:%s:ret=%d:complete=%d:was-complete=%d", H.cname, st, complete, was_complete);
				rep_viol(key, "of_finish_decoding returned %d, is_decoding_complete=%d afterwards (complete before: %d, %d distinct symbols)", st, complete, was_complete, res->n_received_distinct);
			}
		}
		if (ON("C10") && !complete) {
			/* "complete exactly when all k source symbols are available": the application handed every one of them over itself */
			uint32_t have = 0; for (uint32_t i = 0; i < k; i++) have += H.submitted[i] != 0;
			if (have == k) { key2(key, sizeof key, "complete-flag-mismatch", H.cname); rep_viol(key, "all %u source symbols were submitted by the application, of_finish_decoding returned %d and decoding is not reported complete", k, st); }
		}
		if (H.rs && ON("C02")) {
			if (res->n_received_distinct >= (int)k && !complete) { snprintf(key, sizeof key, "mds-fail:%s", H.cname); rep_viol(key, "%d >= k distinct symbols, finish_decoding=%d, not complete", res->n_received_distinct, st); }
			if (res->n_received_distinct < (int)k && complete) { snprintf(key, sizeof key, "complete-below-k:%s", H.cname); rep_viol(key, "complete with %d < k symbols", res->n_received_distinct); }
			if (res->n_received_distinct < (int)k && st != OF_STATUS_FAILURE) { snprintf(key, sizeof key, "finish-status-below-k:%s", H.cname); rep_viol(key, "finish_decoding returned %d with %d < k symbols", st, res->n_received_distinct); }
		}
		if (res->oracle_solvable >= 0) {
			if (ON("C03")) {
				if (res->oracle_solvable && !complete) rep_viol("ml-incomplete-but-solvable", "received set determines all sources (rank oracle) but decoding is incomplete after finish (status %d)", st);
				if (!res->oracle_solvable && complete) rep_viol("ml-complete-but-unsolvable", "received set does not determine the sources but decoding completed");
				rep_count(res->oracle_solvable ? (complete ? "outcome_solvable_complete" : "outcome_solvable_INCOMPLETE") : (complete ? "outcome_unsolvable_COMPLETE" : "outcome_unsolvable_incomplete"), 1);
			}
			if (ON("C16")) {
				if (res->oracle_solvable && !complete) rep_viol("2d-not-recovered:determined", "erasures are uniquely determined by the checks but were not recovered (finish status %d)", st);
				if (!res->oracle_solvable && complete) rep_viol("2d-wrong-symbol", "complete although the erasures are not determined");
			}
		}
	}
	snapshot(&H, 1);
	if (hi->roles == 3 && H.complete_prev && H.rs) {
		/* relay: the instance that decoded the block now regenerates repair symbols from what it decoded. Reed-Solomon only: the
		 * LDPC-Staircase decoder consumes the instance's parity-check matrix, encoding after decoding is outside its protocol
		 * (DESIGN.md 10.2, observation O1) */
		void **et = ar_alloc((size_t)n * sizeof(void *), 0, AR_PTRTAB, 4);
		for (uint32_t i = 0; i < n; i++) et[i] = i < k ? H.prev[i] : NULL;
		/* in ESI order (the staircase needs the previous repair symbol in the table); long blocks: the first 48, and for the
		 * Reed-Solomon codecs also the very last one */
		uint32_t nb = c->r <= 48 ? c->r : 48; uint8_t **outs = calloc(nb + 2, sizeof *outs);
		for (uint32_t q = 0; q <= nb; q++) {
			uint32_t esi = k + q;
			if (q == nb) { if (!H.rs || c->r <= 48) break; esi = n - 1; }
			outs[q] = ar_alloc(H.L, q & 7, AR_SYM, -4);
			memset(outs[q], 0x5C, H.L); et[esi] = outs[q];
			LIB_ENTER(); st = of_build_repair_symbol(H.ses, et, esi); LIB_LEAVE(); res->lib_calls++;
			if (st != OF_STATUS_OK || memcmp(outs[q], b->sym[esi], H.L)) { snprintf(key, sizeof key, "relay-encode-after-decode:%s", H.cname); rep_viol(key, "encoder+decoder instance, decoding complete: of_build_repair_symbol(esi=%u) status %d, %s", esi, st, st == OF_STATUS_OK ? "wrong repair symbol" : "refused"); break; }
			rep_count("repair_symbols_rebuilt_by_a_relay_instance", 1);
		}
		for (uint32_t q = 0; q <= nb; q++) if (outs[q]) ar_free(outs[q]);
		free(outs); ar_free(et);
	}
	if ((mon & MON_C11) && ON("C11") && hi->cbmode) {
		for (uint32_t i = 0; i < k; i++) {
			if (H.avail[i] && !H.submitted[i] && H.cbcount[i] != 1) { snprintf(key, sizeof key, "cb-missing:%s:%s", H.cname, H.stage[i] == 2 ? "finish" : "submission"); if (!H.cbcount[i]) rep_viol(key, "source %u available, never submitted, %u callbacks", i, H.cbcount[i]); }
			if (H.cbcount[i] && !H.avail[i]) { snprintf(key, sizeof key, "cb-without-symbol:%s", H.cname); rep_viol(key, "callback for source %u but the symbol is not reported available", i); }
		}
	}
	if (c->codec == 3 && H.claim0 >= 0 && (ON("C15") || ON("C10"))) {
		/* what a session says about its last repair symbol is a property of its parameters: the same answer at the end of its life */
		UINT32 isnull = 7; LIB_ENTER(); st = of_get_control_parameter(H.ses, OF_CRTL_LDPC_STAIRCASE_IS_LAST_SYMBOL_NULL, &isnull, sizeof isnull); LIB_LEAVE();
		if (st != OF_STATUS_OK || (int)(isnull != 0) != H.claim0) rep_viol("null-claim-changed-during-session", "IS_LAST_SYMBOL_NULL was %d after of_set_fec_parameters and is %d (status %d) at the end of the session (k=%u r=%u N1=%u seed=%u, finish=%d)", H.claim0, (int)(isnull != 0), st, c->k, c->r, c->N1, c->seed, hi->finish);
		rep_count("null_claims_compared_at_both_ends_of_a_session", 1);
	}
release:
	/* hand-over: decoded source symbols the library allocated belong to the application from now on */
	if (H.tab && res->configured) {
		for (uint32_t i = 0; i < k; i++) if (H.prev[i] && led_is_lib(H.prev[i])) led_handover(H.prev[i]);
	}
	LIB_ENTER(); st = of_release_codec_instance(H.ses); LIB_LEAVE();
	rep_count("api_release", 1); res->lib_calls++;
	if (st != OF_STATUS_OK && ON("C10")) { key2(key, sizeof key, "release-status", H.cname); rep_viol(key, "of_release_codec_instance returned %d", st); }
	ledger_verdict(c, hi->stop == 1 ? "release-unconfigured" : hi->stop == 2 ? "release-configured" : hi->finish ? "release-after-finish" : "release-mid-decoding");
	/* the application frees what it owns */
	if (H.tab && res->configured) {
		for (uint32_t i = 0; i < k; i++) {
			void *p = H.prev[i];
			if (!p || p == (void *)b->sym[i] || ar_owns(p)) continue;
			if (led_is_lib(p)) free(p);
		}
	}
	if ((mon & MON_C07) && ON("C07") && !b->slab) {
		for (uint32_t i = 0; i < n; i++) if (ar_check(b->sym[i])) { snprintf(key, sizeof key, "modified:%s:%s", i < k ? "received-source" : "received-repair", H.cname); rep_viol(key, "symbol %u given to the decoder was modified", i); break; }
		if (H.tab && ar_check(H.tab)) rep_viol("modified:pointer-table:decoder", "memory before the source table was written");
	}
	for (size_t i = 0; i < H.nallcb; i++) { if ((mon & MON_C07) && ON("C07") && ar_check(H.allcb[i])) rep_viol("modified:callback-buffer-slack", "bytes before a callback buffer were written"); ar_free(H.allcb[i]); }
	free(H.allcb);
	for (size_t i = 0; i < H.ndups; i++) { if ((mon & MON_C07) && ON("C07") && ar_check(H.dups[i])) rep_viol("modified:received-source:duplicate-buffer", "a duplicate's buffer was modified"); ar_free(H.dups[i]); }
	free(H.dups);
	if (H.tab) ar_free(H.tab);
	gf2_peel_free(H.peel);
	free(H.submitted); free(H.received); free(H.sub_unknown); free(H.avail); free(H.cbcount); free(H.stage); free(H.prev); free(H.cbbuf);
}
