/* History driver + shadow model + property monitors for codec sessions (DESIGN.md §3.2, §5 C01-C04, C07, C08, C10, C11). */
#ifndef OFH_SESSION_H
#define OFH_SESSION_H
#include "common.h"
#include "gf2.h"

typedef struct { int codec; int m; uint32_t k, r, L, N1, seed; } cfg_t;   /* codec: 1 RS28, 2 RS2M, 3 LDPC, 5 2D */

typedef struct {
	cfg_t c; uint32_t n;
	uint8_t **sym;            /* the encoded block: n arena buffers, read-only once built */
	int null_claim;           /* LDPC encoder session: OF_CRTL_LDPC_STAIRCASE_IS_LAST_SYMBOL_NULL */
	int slab;                 /* symbols live in one slab (large blocks) */
	uint8_t *slab_base;
	/* oracle data, built on demand from an identity-payload encoding (black box) */
	unsigned gw; uint64_t *g; /* r rows x gw words: repair j as a GF(2) combination of the k sources */
	gf2_sys_t *sys;           /* parity-check equations over ESIs (staircase form derived from g) */
} block_t;

enum { PAY_RANDOM = 0, PAY_IDENTITY = 1, PAY_SPARSE = 2, PAY_BYTEUNIT = 3 /* source i = the i-th unit vector over bytes: repair j then spells out row j of the generator */ };
/* Encoder session through the public API. nullslot_mask: bit (esi & 63) set => pass a NULL output slot.
 * Returns 0 ok, 1 configuration rejected by the library, <0 encoder misbehaved (already reported under `prop`). */
int  block_build(block_t *b, const cfg_t *c, int payload, rng_t *rng, uint64_t nullslot_mask, int early_release_after);
int  block_oracle(block_t *b);      /* builds g and sys (LDPC / 2D). 0 ok */
void block_free(block_t *b);
const char *codec_name(const cfg_t *c);
int  cfg_params(const cfg_t *c, void *buf);   /* fills the codec-specific of_*_parameters_t into buf (>= 32 bytes) */

typedef struct {
	int api;            /* 0 of_decode_with_new_symbol sequence, 1 one of_set_available_symbols */
	int finish;         /* call of_finish_decoding at the end */
	int cbmode;         /* 0 none, 1 buffer, 2 NULL, 3 alternating, 4 NULL for odd ESIs, 5 buffer + repair callback registered */
	int roles;          /* 0 decoder, 1 encoder+decoder, 2 encoder+decoder that first builds one repair symbol,
	                     * 3 encoder+decoder that, once decoding is complete, rebuilds repair symbols from the decoded block (a relay) */
	int stop;           /* 0 full history; 1 release right after create; 2 release right after set_fec_parameters */
	uint32_t nsub; const uint32_t *sub;   /* ESIs in submission order (may repeat); for api 1 the set */
	int snap_every;     /* 1 = observe after every call */
	int reenter;        /* the decoded-source callback runs a complete decoding session of another block before it returns */
	int cb_early;       /* of_set_callback_functions right after of_create_codec_instance, before of_set_fec_parameters */
	int dupcopy;        /* a repeated ESI is submitted from a different buffer holding the same bytes (a network duplicate) */
} hist_t;

enum { MON_C01 = 1, MON_C02 = 2, MON_C03 = 4, MON_C04 = 8, MON_C07 = 16, MON_C08 = 32, MON_C10 = 64, MON_C11 = 128, MON_C16 = 256 };

typedef struct {
	int configured, complete, finish_status, n_received_distinct;
	uint32_t decoded_it, decoded_fin, callbacks, null_callbacks;
	int oracle_solvable;        /* -1 unknown */
	int it_incomplete;          /* peeling closure did not contain all sources (Gaussian elimination decided) */
	uint64_t lib_calls;
} hres_t;

void run_history(const block_t *b, const hist_t *h, unsigned monitors, hres_t *res);
/* recoverability oracle on the generator form: are all k sources determined by the received set? */
int  oracle_solvable(const block_t *b, const uint8_t *received /* n flags */);
/* when set, every session is preceded by one or two throw-away instances that are offered a parameter set the documented limits
 * exclude, are refused, and are released at once (a refusal is OF_STATUS_FATAL_ERROR: the instance must not be used further) */
extern int g_session_preprobe;
extern unsigned g_session_verbosity;
extern int g_force_closure_monitor;
extern const char *g_prop;      /* property whose monitor is on the verdict path */
#endif
