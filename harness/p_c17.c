/* C17 — the sparse GF(2) matrix behaves as a set of (row, column) pairs under any operation sequence (DESIGN.md §5 C17).
 * Model: a plain boolean array per matrix. After every operation: membership through of_mod2sparse_find,
 * a structural walk of every row and column list, and (under ASan) no touch of freed memory; at the end of
 * each sequence every matrix is freed and the allocation ledger must be empty. */
#include "common.h"
#include "ledger.h"
#include "arena.h"
#include "of_openfec_api.h"
#include "linear_binary_codes_utils/of_linear_binary_code.h"

#define MAXD 72
typedef struct { of_mod2sparse *m; int R, C; uint8_t M[MAXD][MAXD]; int count; } smat_t;
#define NMAT 3
static smat_t g_m[NMAT];
static const char *g_lastop = "";
static uint64_t g_ops;

static void vio(const char *cls, const char *fmt, ...)
{
	char key[96], det[300]; va_list ap;
	snprintf(key, sizeof key, "sparse-%s:%s", cls, g_lastop);
	va_start(ap, fmt); vsnprintf(det, sizeof det, fmt, ap); va_end(ap);
	rep_viol(key, "%s", det);
}

/* structural walker + model comparison */
static void check(smat_t *s, int full)
{
	of_mod2sparse *m = s->m; if (!m) return;
	if (of_mod2sparse_rows(m) != s->R || of_mod2sparse_cols(m) != s->C) { vio("structure", "dimensions %dx%d, expected %dx%d", of_mod2sparse_rows(m), of_mod2sparse_cols(m), s->R, s->C); return; }
	int total = 0;
	for (int i = 0; i < s->R; i++) {
		int prev = -1, n = 0; of_mod2entry *e, *pe = &m->rows[i];
		for (e = of_mod2sparse_first_in_row(m, i); !of_mod2sparse_at_end(e); e = of_mod2sparse_next_in_row(e)) {
			if (e->row != i) { vio("structure", "entry in row list %d has row=%d", i, e->row); return; }
			if (e->col <= prev || e->col >= s->C) { vio("structure", "row %d: columns not strictly increasing (%d after %d)", i, e->col, prev); return; }
			if (e->left != pe) { vio("structure", "row %d: left pointer of entry (%d,%d) inconsistent", i, e->row, e->col); return; }
			if (!s->M[i][e->col]) { vio("model", "entry (%d,%d) present but not in the model", i, e->col); return; }
			prev = e->col; pe = e;
			if (++n > s->C) { vio("structure", "row %d: list longer than the number of columns (cycle?)", i); return; }
		}
		if (e != &m->rows[i]) { vio("structure", "row %d does not end at its header", i); return; }
		if (m->rows[i].left != pe) { vio("structure", "row %d: header.left is not the last entry", i); return; }
		int want = 0; for (int j = 0; j < s->C; j++) want += s->M[i][j];
		if (n != want) { vio("model", "row %d lists %d entries, model has %d", i, n, want); return; }
		total += n;
		if (full) {
			if ((int)of_mod2sparse_weight_row(m, (UINT32)i) != want) { vio("model", "weight_row(%d) != %d", i, want); return; }
			if ((of_mod2sparse_empty_row(m, (UINT32)i) ? 1 : 0) != (want == 0)) { vio("model", "empty_row(%d) disagrees with the model", i); return; }
		}
	}
	for (int j = 0; j < s->C; j++) {
		int prev = -1, n = 0; of_mod2entry *e, *pe = &m->cols[j];
		for (e = of_mod2sparse_first_in_col(m, j); !of_mod2sparse_at_end_col(e); e = of_mod2sparse_next_in_col(e)) {
			if (e->col != j) { vio("structure", "entry in column list %d has col=%d", j, e->col); return; }
			if (e->row <= prev || e->row >= s->R) { vio("structure", "column %d: rows not strictly increasing (%d after %d)", j, e->row, prev); return; }
			if (e->up != pe) { vio("structure", "column %d: up pointer of entry (%d,%d) inconsistent", j, e->row, e->col); return; }
			if (!s->M[e->row][j]) { vio("model", "entry (%d,%d) in column list but not in the model", e->row, j); return; }
			prev = e->row; pe = e;
			if (++n > s->R) { vio("structure", "column %d: list longer than the number of rows", j); return; }
		}
		if (e != &m->cols[j]) { vio("structure", "column %d does not end at its header", j); return; }
		if (m->cols[j].up != pe) { vio("structure", "column %d: header.up is not the last entry", j); return; }
		int want = 0; for (int i = 0; i < s->R; i++) want += s->M[i][j];
		if (n != want) { vio("model", "column %d lists %d entries, model has %d", j, n, want); return; }
		if (full && (of_mod2sparse_empty_col(m, (UINT32)j) ? 1 : 0) != (want == 0)) { vio("model", "empty_col(%d) disagrees with the model", j); return; }
	}
	if (full) for (int i = 0; i < s->R; i++) for (int j = 0; j < s->C; j++) {
		of_mod2entry *e = of_mod2sparse_find(m, (UINT32)i, (UINT32)j);
		if ((e != NULL) != (s->M[i][j] != 0)) { vio("model", "find(%d,%d)=%s, model says %d", i, j, e ? "entry" : "NULL", s->M[i][j]); return; }
		if (e && (e->row != i || e->col != j)) { vio("model", "find(%d,%d) returned entry (%d,%d)", i, j, e->row, e->col); return; }
	}
	(void)total;
}

static void m_alloc(int k, int R, int C)
{
	g_lastop = "allocate";
	LIB_ENTER(); g_m[k].m = of_mod2sparse_allocate((UINT32)R, (UINT32)C); LIB_LEAVE();
	g_m[k].R = R; g_m[k].C = C; memset(g_m[k].M, 0, sizeof g_m[k].M);
	if (!g_m[k].m) { vio("model", "allocate(%d,%d) returned NULL", R, C); return; }
	g_ops++;
}
static void m_free(int k)
{
	if (!g_m[k].m) return;
	g_lastop = "free";
	LIB_ENTER(); of_mod2sparse_free(g_m[k].m); of_free(g_m[k].m); LIB_LEAVE();
	g_m[k].m = NULL; g_ops++;
}
static void m_insert(int k, int i, int j)
{
	smat_t *s = &g_m[k]; g_lastop = "insert";
	LIB_ENTER(); of_mod2entry *before = s->M[i][j] ? of_mod2sparse_find(s->m, (UINT32)i, (UINT32)j) : NULL;
	of_mod2entry *e = of_mod2sparse_insert(s->m, (UINT32)i, (UINT32)j); LIB_LEAVE();
	if (!e || e->row != i || e->col != j) vio("model", "insert(%d,%d) returned %s", i, j, e ? "a wrong entry" : "NULL");
	if (s->M[i][j] && e != before) vio("model", "insert of the existing entry (%d,%d) returned a different entry", i, j);
	s->M[i][j] = 1; g_ops++;
}
static void m_delete(int k, int i, int j)
{
	smat_t *s = &g_m[k]; g_lastop = "delete";
	LIB_ENTER(); of_mod2entry *e = of_mod2sparse_find(s->m, (UINT32)i, (UINT32)j); LIB_LEAVE();
	if (!e) { if (s->M[i][j]) vio("model", "find(%d,%d) is NULL but the model has the entry", i, j); return; }
	LIB_ENTER(); of_mod2sparse_delete(s->m, e); LIB_LEAVE();
	s->M[i][j] = 0; g_ops++;
}
static void m_clear(int k) { g_lastop = "clear"; LIB_ENTER(); of_mod2sparse_clear(g_m[k].m); LIB_LEAVE(); memset(g_m[k].M, 0, sizeof g_m[k].M); g_ops++; }

static void m_copy(int a, int b)
{	/* needs dims(b) >= dims(a) */
	smat_t *A = &g_m[a], *B = &g_m[b]; g_lastop = "copy";
	LIB_ENTER(); of_mod2sparse_copy(A->m, B->m); LIB_LEAVE();
	memset(B->M, 0, sizeof B->M);
	for (int i = 0; i < A->R; i++) memcpy(B->M[i], A->M[i], (size_t)A->C);
	g_ops++;
}
/* index arrays for copyrows / copycols: uniform random or near-regular with a few entries exchanged or repeated */
static void index_array(rng_t *r, UINT32 *idx, int n, int src)
{
	unsigned mode = rng_below(r, 5);
	if (mode == 0) { for (int x = 0; x < n; x++) idx[x] = rng_below(r, (uint32_t)src); return; }
	int shift = (int)rng_below(r, (uint32_t)src);
	for (int x = 0; x < n; x++) idx[x] = (UINT32)((mode == 2 ? src - 1 - (x % src) : (x + shift) % src));
	int nswap = mode <= 2 ? 0 : 1 + (int)rng_below(r, 3);
	for (int q = 0; q < nswap && n > 1; q++) {
		int a = (int)rng_below(r, (uint32_t)n), b = (int)rng_below(r, (uint32_t)n);
		if (mode == 4) idx[a] = idx[b]; else { UINT32 t = idx[a]; idx[a] = idx[b]; idx[b] = t; }
	}
}
/* the insertion-hint table of copyrows_opt is an IN parameter: one zeroed, read-only table per sequence, handed to every call */
static of_mod2entry **g_hint;
static int g_keep_dest;     /* the _opt variants do not clear the destination: the result is the union with what it held */
static void m_copyrows(int a, int b, rng_t *r, int opt)
{	/* needs cols(b) >= cols(a); opt variant needs an empty destination */
	smat_t *A = &g_m[a], *B = &g_m[b]; UINT32 rows[MAXD];
	index_array(r, rows, B->R, A->R);
	if (opt) { for (int i = 1; i < B->R; i++) if (rows[i] < rows[i - 1]) { } }
	g_lastop = opt ? "copyrows_opt" : "copyrows";
	int hinted = opt && g_hint && rng_below(r, 2);
	LIB_ENTER(); if (opt) of_mod2sparse_copyrows_opt(A->m, B->m, rows, hinted ? g_hint : NULL); else of_mod2sparse_copyrows(A->m, B->m, rows); LIB_LEAVE();
	if (hinted) { rep_count("copyrows_opt_calls_with_a_caller_hint_table", 1); if (ar_check(g_hint)) vio("model", "the caller's IN-only hint table was modified by copyrows_opt"); }
	if (!(opt && g_keep_dest)) memset(B->M, 0, sizeof B->M);
	for (int i = 0; i < B->R; i++) for (int j = 0; j < A->C; j++) if (A->M[rows[i]][j]) B->M[i][j] = 1; else if (!(opt && g_keep_dest)) B->M[i][j] = 0;
	g_ops++;
}
static void m_copycols(int a, int b, rng_t *r, int opt)
{	/* needs rows(b) >= rows(a) */
	smat_t *A = &g_m[a], *B = &g_m[b]; UINT32 cols[MAXD];
	index_array(r, cols, B->C, A->C);
	g_lastop = opt ? "copycols_opt" : "copycols";
	LIB_ENTER(); if (opt) of_mod2sparse_copycols_opt(A->m, B->m, cols); else of_mod2sparse_copycols(A->m, B->m, cols); LIB_LEAVE();
	if (!(opt && g_keep_dest)) memset(B->M, 0, sizeof B->M);
	for (int j = 0; j < B->C; j++) for (int i = 0; i < A->R; i++) if (A->M[i][cols[j]]) B->M[i][j] = 1;
	g_ops++;
}
static rng_t *g_cf_rng;
static void m_copy_filled(int a, int b)
{	/* destination must have at least as many rows/cols as a has non-empty ones; entries are added to what b holds */
	smat_t *A = &g_m[a], *B = &g_m[b]; UINT32 ir[MAXD], ic[MAXD]; int nr = 0, nc = 0;
	for (int i = 0; i < A->R; i++) { int w = 0; for (int j = 0; j < A->C; j++) w += A->M[i][j]; ir[i] = w ? (UINT32)nr++ : 0; }
	for (int j = 0; j < A->C; j++) { int w = 0; for (int i = 0; i < A->R; i++) w += A->M[i][j]; ic[j] = w ? (UINT32)nc++ : 0; }
	if (nr > B->R || nc > B->C) return;
	if (g_cf_rng && rng_below(g_cf_rng, 2)) {
		/* the index tables are the caller's: any injective maps of the non-empty rows / columns, not only the increasing compaction */
		UINT32 pr[MAXD], pc[MAXD];
		for (int i = 0; i < B->R; i++) pr[i] = (UINT32)i;
		for (int j = 0; j < B->C; j++) pc[j] = (UINT32)j;
		for (int i = B->R; i > 1; i--) { uint32_t x = rng_below(g_cf_rng, (uint32_t)i); UINT32 t = pr[i - 1]; pr[i - 1] = pr[x]; pr[x] = t; }
		for (int j = B->C; j > 1; j--) { uint32_t x = rng_below(g_cf_rng, (uint32_t)j); UINT32 t = pc[j - 1]; pc[j - 1] = pc[x]; pc[x] = t; }
		int q = 0; for (int i = 0; i < A->R; i++) { int w = 0; for (int j = 0; j < A->C; j++) w += A->M[i][j]; if (w) ir[i] = pr[q++]; }
		q = 0; for (int j = 0; j < A->C; j++) { int w = 0; for (int i = 0; i < A->R; i++) w += A->M[i][j]; if (w) ic[j] = pc[q++]; }
		rep_count("copy_filled_matrix_calls_with_permuted_index_maps", 1);
	}
	g_lastop = "copy_filled_matrix";
	LIB_ENTER(); of_mod2sparse_copy_filled_matrix(A->m, B->m, ir, ic); LIB_LEAVE();
	for (int i = 0; i < A->R; i++) for (int j = 0; j < A->C; j++) if (A->M[i][j]) B->M[ir[i]][ic[j]] = 1;
	g_ops++;
}
static void m_roundtrip(int a, int b, rng_t *r)
{	/* sparse -> dense -> sparse; needs dims(b) >= dims(a). The dense intermediate is anywhere between the two sizes and, every
	 * other time, already holds bits (a reused matrix): the conversion must leave it equal to the source padded with zeros */
	smat_t *A = &g_m[a], *B = &g_m[b]; g_lastop = "sparse_to_dense_to_sparse";
	int DR = A->R + (int)rng_below(r, (uint32_t)(B->R - A->R + 1)), DC = A->C + (int)rng_below(r, (uint32_t)(B->C - A->C + 1));
	int dirty = (int)rng_below(r, 2);
	LIB_ENTER();
	of_mod2dense *d = of_mod2dense_allocate((UINT32)DR, (UINT32)DC);
	if (dirty) for (int i = 0; i < DR; i++) for (int j = 0; j < DC; j++) if (rng_below(r, 2)) of_mod2dense_set(d, (UINT32)i, (UINT32)j, 1);
	of_mod2sparse_to_dense(A->m, d);
	int bad = 0;
	for (int i = 0; i < DR && !bad; i++) for (int j = 0; j < DC; j++) if ((of_mod2dense_get(d, (UINT32)i, (UINT32)j) ? 1 : 0) != ((i < A->R && j < A->C) ? A->M[i][j] : 0)) { bad = 1; break; }
	of_mod2dense_to_sparse(d, B->m);
	of_mod2dense_free(d);
	LIB_LEAVE();
	if (bad) vio("model", "sparse_to_dense produced a different matrix");
	memset(B->M, 0, sizeof B->M);
	for (int i = 0; i < A->R; i++) memcpy(B->M[i], A->M[i], (size_t)A->C);
	g_ops++;
}

static void end_sequence(void)
{
	for (int k = 0; k < NMAT; k++) m_free(k);
	g_lastop = "free";
	if (g_led_bad_free) { rep_viol("sparse-asan:double-free", "free of a pointer that is not a live block (%p)", g_led_bad_free_ptr); g_led_bad_free = 0; }
	if (led_live_count()) { led_ent_t e[2]; led_live(e, 2); rep_viol("sparse-leak", "LEAKSITES %llu block(s) still allocated after freeing every matrix: [size=%zu site=%p]", (unsigned long long)led_live_count(), e[0].size, e[0].site); }
	rep_count("ledger_allocations", g_led_allocs); g_led_allocs = g_led_frees = 0;
}

/* ---- dimensions beyond 2^16: the model is a sorted list of (row << 32 | col) pairs ---- */
typedef struct { uint64_t *p; size_t n, cap; } pset_t;
static int cmp_u64(const void *a, const void *b) { uint64_t x = *(const uint64_t *)a, y = *(const uint64_t *)b; return x < y ? -1 : x > y; }
static void ps_add(pset_t *s, uint32_t i, uint32_t j) { if (s->n == s->cap) { s->cap = s->cap ? s->cap * 2 : 1024; s->p = realloc(s->p, s->cap * sizeof *s->p); } s->p[s->n++] = ((uint64_t)i << 32) | j; }
static void ps_norm(pset_t *s) { if (!s->n) return; qsort(s->p, s->n, sizeof *s->p, cmp_u64); size_t w = 1; for (size_t r = 1; r < s->n; r++) if (s->p[r] != s->p[w - 1]) s->p[w++] = s->p[r]; s->n = w; }
static void ps_free(pset_t *s) { free(s->p); memset(s, 0, sizeof *s); }
/* the matrix must hold exactly the pairs of the model: row walk, column walk, find on members and on neighbours */
static int big_check(of_mod2sparse *m, uint32_t R, uint32_t C, pset_t *want, const char *what)
{
	g_lastop = what;
	if ((uint32_t)of_mod2sparse_rows(m) != R || (uint32_t)of_mod2sparse_cols(m) != C) { vio("structure", "dimensions %dx%d, expected %ux%u", of_mod2sparse_rows(m), of_mod2sparse_cols(m), R, C); return 1; }
	pset_t got = { 0 };
	for (uint32_t i = 0; i < R; i++) {
		long prev = -1; size_t n = 0;
		for (of_mod2entry *e = of_mod2sparse_first_in_row(m, i); !of_mod2sparse_at_end(e); e = of_mod2sparse_next_in_row(e)) {
			if ((uint32_t)e->row != i || (long)e->col <= prev || (uint32_t)e->col >= C) { vio("structure", "row list %u holds entry (%d,%d) after column %ld", i, e->row, e->col, prev); ps_free(&got); return 1; }
			prev = e->col; ps_add(&got, i, (uint32_t)e->col);
			if (++n > C) { vio("structure", "row %u: list longer than the number of columns", i); ps_free(&got); return 1; }
		}
	}
	int bad = 0;
	if (got.n != want->n) { vio("model", "%zu entries in the row lists, model has %zu (%ux%u)", got.n, want->n, R, C); bad = 1; }
	for (size_t x = 0; !bad && x < got.n; x++) if (got.p[x] != want->p[x]) { vio("model", "row walk: entry (%u,%u) where the model has (%u,%u)", (unsigned)(got.p[x] >> 32), (unsigned)got.p[x], (unsigned)(want->p[x] >> 32), (unsigned)want->p[x]); bad = 1; }
	got.n = 0;
	for (uint32_t j = 0; !bad && j < C; j++) {
		long prev = -1; size_t n = 0;
		for (of_mod2entry *e = of_mod2sparse_first_in_col(m, j); !of_mod2sparse_at_end_col(e); e = of_mod2sparse_next_in_col(e)) {
			if ((uint32_t)e->col != j || (long)e->row <= prev || (uint32_t)e->row >= R) { vio("structure", "column list %u holds entry (%d,%d) after row %ld", j, e->row, e->col, prev); bad = 1; break; }
			prev = e->row; ps_add(&got, (uint32_t)e->row, j);
			if (++n > R) { vio("structure", "column %u: list longer than the number of rows", j); bad = 1; break; }
		}
	}
	if (!bad) { ps_norm(&got); if (got.n != want->n) { vio("model", "%zu entries in the column lists, model has %zu", got.n, want->n); bad = 1; } }
	for (size_t x = 0; !bad && x < got.n; x++) if (got.p[x] != want->p[x]) { vio("model", "column walk: entry (%u,%u) where the model has (%u,%u)", (unsigned)(got.p[x] >> 32), (unsigned)got.p[x], (unsigned)(want->p[x] >> 32), (unsigned)want->p[x]); bad = 1; }
	ps_free(&got);
	for (size_t x = 0; !bad && x < want->n; x++) {
		uint32_t i = (uint32_t)(want->p[x] >> 32), j = (uint32_t)want->p[x];
		of_mod2entry *e = of_mod2sparse_find(m, i, j);
		if (!e || (uint32_t)e->row != i || (uint32_t)e->col != j) { vio("model", "find(%u,%u) = %s, the model has the entry", i, j, e ? "another entry" : "NULL"); bad = 1; break; }
		/* the same position folded modulo 2^16 must be absent unless the model has it */
		uint32_t fi = i & 0xFFFF, fj = j & 0xFFFF;
		if ((fi != i || fj != j) && fi < R && fj < C) { uint64_t key = ((uint64_t)fi << 32) | fj; int has = bsearch(&key, want->p, want->n, sizeof key, cmp_u64) != NULL; if ((of_mod2sparse_find(m, fi, fj) != NULL) != has) { vio("model", "find(%u,%u) disagrees with the model (%d)", fi, fj, has); bad = 1; break; } }
	}
	g_ops++;
	return bad;
}
static uint32_t near16(rng_t *r, uint32_t D)
{	/* positions clustered around multiples of 2^16 and the ends, else uniform */
	static const int d[] = { -2, -1, 0, 1, 2 };
	uint32_t v;
	switch (rng_below(r, 4)) {
	case 0: v = 65536u * (1 + rng_below(r, D / 65536u ? D / 65536u : 1)) + (uint32_t)d[rng_below(r, 5)]; break;
	case 1: v = rng_below(r, 4) ? rng_below(r, 8) : D - 1 - rng_below(r, 8); break;
	default: v = rng_below(r, D); break;
	}
	return v < D ? v : rng_below(r, D);
}
static void big_case(rng_t *r, uint32_t R, uint32_t C, int nent)
{
	led_reset(); g_led_bad_free = 0;
	uint64_t v0 = g_viol_total;
	pset_t P = { 0 }, Q = { 0 };
	g_lastop = "allocate";
	LIB_ENTER(); of_mod2sparse *a = of_mod2sparse_allocate(R, C), *b = of_mod2sparse_allocate(R, C); LIB_LEAVE();
	if (!a || !b) { vio("model", "allocate(%u,%u) returned NULL", R, C); return; }
	g_lastop = "insert";
	for (int x = 0; x < nent; x++) {
		uint32_t i = near16(r, R), j = near16(r, C);
		LIB_ENTER(); of_mod2entry *e = of_mod2sparse_insert(a, i, j); LIB_LEAVE();
		if (!e || (uint32_t)e->row != i || (uint32_t)e->col != j) { vio("model", "insert(%u,%u) returned %s", i, j, e ? "a wrong entry" : "NULL"); break; }
		ps_add(&P, i, j); g_ops++;
	}
	ps_norm(&P);
	if (g_viol_total == v0) big_check(a, R, C, &P, "insert");
	/* copy */
	if (g_viol_total == v0) { g_lastop = "copy"; LIB_ENTER(); of_mod2sparse_copy(a, b); LIB_LEAVE(); big_check(b, R, C, &P, "copy"); }
	/* copy_filled_matrix with the compaction maps the ML decoder builds, into a matrix of the compacted size */
	if (g_viol_total == v0) {
		UINT32 *ir = calloc(R, sizeof *ir), *ic = calloc(C, sizeof *ic); uint32_t nr = 0, nc = 0;
		uint8_t *ur = calloc(R, 1), *uc = calloc(C, 1);
		for (size_t x = 0; x < P.n; x++) { ur[P.p[x] >> 32] = 1; uc[(uint32_t)P.p[x]] = 1; }
		for (uint32_t i = 0; i < R; i++) if (ur[i]) ir[i] = nr++;
		for (uint32_t j = 0; j < C; j++) if (uc[j]) ic[j] = nc++;
		g_lastop = "copy_filled_matrix";
		LIB_ENTER(); of_mod2sparse *c = of_mod2sparse_allocate(nr ? nr : 1, nc ? nc : 1); of_mod2sparse_copy_filled_matrix(a, c, ir, ic); LIB_LEAVE();
		Q.n = 0; for (size_t x = 0; x < P.n; x++) ps_add(&Q, ir[P.p[x] >> 32], ic[(uint32_t)P.p[x]]);
		ps_norm(&Q);
		big_check(c, nr ? nr : 1, nc ? nc : 1, &Q, "copy_filled_matrix");
		LIB_ENTER(); of_mod2sparse_free(c); of_free(c); LIB_LEAVE();
		/* and with the identity maps: the image is the matrix itself */
		if (g_viol_total == v0) {
			for (uint32_t i = 0; i < R; i++) ir[i] = i;
			for (uint32_t j = 0; j < C; j++) ic[j] = j;
			g_lastop = "copy_filled_matrix";
			LIB_ENTER(); of_mod2sparse_clear(b); of_mod2sparse_copy_filled_matrix(a, b, ir, ic); LIB_LEAVE();
			big_check(b, R, C, &P, "copy_filled_matrix");
		}
		/* copyrows / copycols with a permutation that moves rows and columns across the 2^16 line */
		if (g_viol_total == v0) {
			uint32_t sh = 1 + rng_below(r, R > 1 ? R - 1 : 1);
			for (uint32_t i = 0; i < R; i++) ir[i] = (i + sh) % R;                 /* row i of b = row ir[i] of a */
			g_lastop = "copyrows";
			LIB_ENTER(); of_mod2sparse_copyrows(a, b, ir); LIB_LEAVE();
			Q.n = 0; for (size_t x = 0; x < P.n; x++) { uint32_t src = (uint32_t)(P.p[x] >> 32); ps_add(&Q, (src + R - sh) % R, (uint32_t)P.p[x]); }
			ps_norm(&Q); big_check(b, R, C, &Q, "copyrows");
		}
		if (g_viol_total == v0) {
			uint32_t sh = 1 + rng_below(r, C > 1 ? C - 1 : 1);
			for (uint32_t j = 0; j < C; j++) ic[j] = (j + sh) % C;
			g_lastop = "copycols";
			LIB_ENTER(); of_mod2sparse_copycols(a, b, ic); LIB_LEAVE();
			Q.n = 0; for (size_t x = 0; x < P.n; x++) { uint32_t src = (uint32_t)P.p[x]; ps_add(&Q, (uint32_t)(P.p[x] >> 32), (src + C - sh) % C); }
			ps_norm(&Q); big_check(b, R, C, &Q, "copycols");
		}
		free(ir); free(ic); free(ur); free(uc);
	}
	/* delete every other entry, then clear */
	if (g_viol_total == v0) {
		g_lastop = "delete"; Q.n = 0;
		for (size_t x = 0; x < P.n; x++) {
			uint32_t i = (uint32_t)(P.p[x] >> 32), j = (uint32_t)P.p[x];
			if (x & 1) { ps_add(&Q, i, j); continue; }
			LIB_ENTER(); of_mod2entry *e = of_mod2sparse_find(a, i, j); if (e) of_mod2sparse_delete(a, e); LIB_LEAVE();
			if (!e) { vio("model", "find(%u,%u) is NULL but the model has the entry", i, j); break; }
			g_ops++;
		}
		ps_norm(&Q);
		if (g_viol_total == v0) big_check(a, R, C, &Q, "delete");
	}
	if (g_viol_total == v0) { g_lastop = "clear"; LIB_ENTER(); of_mod2sparse_clear(a); LIB_LEAVE(); Q.n = 0; big_check(a, R, C, &Q, "clear"); }
	g_lastop = "free";
	LIB_ENTER(); of_mod2sparse_free(a); of_free(a); of_mod2sparse_free(b); of_free(b); LIB_LEAVE();
	ps_free(&P); ps_free(&Q);
	end_sequence();
}

/* random model-based sequence */
static void random_sequence(rng_t *r, int len, int maxdim, int dense_fill)
{
	int longlived = dense_fill == 2;    /* rare bulk operations, so that a cleared matrix is refilled beyond one block */
	led_reset(); g_led_bad_free = 0;
	g_hint = ar_alloc((MAXD + 8) * sizeof *g_hint, 0, AR_PTRTAB, 17); memset(g_hint, 0, (MAXD + 8) * sizeof *g_hint); ar_ro(g_hint);
	int R = 1 + (int)rng_below(r, (uint32_t)maxdim), C = 1 + (int)rng_below(r, (uint32_t)maxdim);
	/* b and c are at least as large as a so that every copy precondition can be met */
	m_alloc(0, R, C);
	m_alloc(1, R + (int)rng_below(r, 3), C + (int)rng_below(r, 3));
	m_alloc(2, R + (int)rng_below(r, 2), C + (int)rng_below(r, 2));
	uint64_t viol0 = g_viol_total;
	for (int step = 0; step < len && g_viol_total == viol0; step++) {
		int k = (int)rng_below(r, NMAT); smat_t *s = &g_m[k];
		unsigned op = rng_below(r, 100);
		if (dense_fill && op < 70) op = op < 50 ? 0 : 45;
		if (longlived && op >= 60 && rng_below(r, 40)) op = op < 85 ? 0 : 45;   /* bulk operations 40x rarer */
		if (op < 40) m_insert(k, (int)rng_below(r, (uint32_t)s->R), (int)rng_below(r, (uint32_t)s->C));
		else if (op < 60) m_delete(k, (int)rng_below(r, (uint32_t)s->R), (int)rng_below(r, (uint32_t)s->C));
		else if (op < 64) m_clear(k);
		else if (op < 70) { if (k != 0) m_copy(0, k); else m_copy(0, 1); k = k ? k : 1; }
		else if (op < 75) { int b = 1 + (int)rng_below(r, 2); m_copyrows(0, b, r, 0); k = b; }
		else if (op < 80) { int b = 1 + (int)rng_below(r, 2); m_copycols(0, b, r, 0); k = b; }
		else if (op < 84) { int b = 1 + (int)rng_below(r, 2); g_keep_dest = (int)rng_below(r, 2); if (!g_keep_dest) m_clear(b); /* the _opt variants add to what the destination holds */
				    if (g_viol_total == viol0) { check(&g_m[b], 0); m_copyrows(0, b, r, 1); } g_keep_dest = 0; k = b; }
		else if (op < 88) { int b = 1 + (int)rng_below(r, 2); int Rb = g_m[b].R, Cb = g_m[b].C; g_keep_dest = (int)rng_below(r, 2); if (!g_keep_dest) { m_free(b); m_alloc(b, Rb, Cb); } m_copycols(0, b, r, 1); g_keep_dest = 0; k = b; }
		else if (op < 92) { int b = 1 + (int)rng_below(r, 2); g_cf_rng = r; m_copy_filled(0, b); g_cf_rng = NULL; k = b; }
		else if (op < 96) { int b = 1 + (int)rng_below(r, 2); m_roundtrip(0, b, r); k = b; }
		else { int Rk = s->R, Ck = s->C; m_free(k); m_alloc(k, Rk, Ck); }
		/* long sequences: the O(size) walk runs every 16th step (every step for short ones), the full find() sweep more rarely */
		if (g_viol_total == viol0 && (len <= 1000 || (step & 15) == 0 || step == len - 1)) check(&g_m[k], (step % (len > 1000 ? 400 : 7)) == 0 || step == len - 1);
	}
	if (g_viol_total == viol0) for (int k = 0; k < NMAT; k++) { g_lastop = "final-check"; check(&g_m[k], 1); }
	if (ar_check(g_hint)) { g_lastop = "copyrows_opt"; vio("model", "the caller's IN-only hint table was modified"); }
	ar_free(g_hint); g_hint = NULL;
	end_sequence();
}

/* exhaustive: every operation sequence of length <= depth over a 2x3 matrix (plus a 2x3 copy target) */
static uint64_t g_exh;
static void exh_rec(int depth, int maxdepth, const uint8_t *ops)
{
	if (depth == maxdepth) return;
	for (int op = 0; op < 15; op++) {
		uint8_t seq[8]; memcpy(seq, ops, (size_t)depth); seq[depth] = (uint8_t)op;
		/* replay the whole sequence from scratch (cheap at this size) */
		led_reset(); g_led_bad_free = 0;
		m_alloc(0, 2, 3); m_alloc(1, 2, 3);
		uint64_t v0 = g_viol_total;
		for (int s = 0; s <= depth && g_viol_total == v0; s++) {
			int o = seq[s];
			if (o < 6) m_insert(0, o / 3, o % 3);
			else if (o < 12) m_delete(0, (o - 6) / 3, (o - 6) % 3);
			else if (o == 12) m_clear(0);
			else if (o == 13) m_copy(0, 1);
			else m_copy(1, 0);
			if (g_viol_total == v0) { check(&g_m[0], 1); check(&g_m[1], 1); }
		}
		end_sequence();
		g_exh++;
		exh_rec(depth + 1, maxdepth, seq);
	}
}

int p_c17(void)
{
	int T = g_run.thorough; long unit = 0;
	/* scripted hostile sequences */
	rep_unit(unit);
	if (rep_unit_mine(unit)) {
		if (rep_case("scripted clear-then-insert")) { led_reset(); m_alloc(0, 5, 7); for (int i = 0; i < 5; i++) m_insert(0, i, (i * 3) % 7); check(&g_m[0], 1); m_clear(0); check(&g_m[0], 1); for (int i = 0; i < 5; i++) { m_insert(0, i, i); check(&g_m[0], 1); } end_sequence(); rep_case_done(1, 0, 1); }
		if (rep_case("scripted delete-then-reinsert")) { led_reset(); m_alloc(0, 4, 4); for (int i = 0; i < 16; i++) m_insert(0, i / 4, i % 4); for (int i = 0; i < 16; i += 2) m_delete(0, i / 4, i % 4); check(&g_m[0], 1); for (int i = 0; i < 16; i += 2) m_insert(0, i / 4, i % 4); check(&g_m[0], 1); end_sequence(); rep_case_done(1, 0, 1); }
		if (rep_case("scripted fill-delete-all-refill beyond one allocation block")) {
			led_reset(); m_alloc(0, 40, 40);
			for (int round = 0; round < 2; round++) { for (int i = 0; i < 40; i++) for (int j = 0; j < 40; j++) m_insert(0, i, (j * 7 + i) % 40); check(&g_m[0], 1); for (int i = 0; i < 40; i++) for (int j = 0; j < 40; j++) m_delete(0, (i * 3) % 40, j); check(&g_m[0], 1); }
			end_sequence(); rep_case_done(1, 0, 1);
		}
		if (rep_case("scripted clear-then-refill beyond one allocation block (1024 entries)")) {
			/* a partly used block, clear, then more inserts than one block holds: every recycled entry must be a free one */
			led_reset(); m_alloc(0, 64, 64);
			for (int i = 0; i < 64; i++) m_insert(0, i, i);
			m_clear(0); check(&g_m[0], 1);
			for (int x = 0; x < 1400; x++) { m_insert(0, (x * 37) % 64, (x * 37 / 64 * 5 + x) % 64); if (x == 1023 || x == 1024 || x == 1100) check(&g_m[0], 1); }
			check(&g_m[0], 1);
			m_clear(0); for (int x = 0; x < 1100; x++) m_insert(0, x % 64, (x / 64 * 3 + x) % 64); check(&g_m[0], 1);
			end_sequence(); rep_case_done(1, 0, 1);
		}
		if (rep_case("scripted copy into a used destination, then grow it beyond one allocation block")) {
			led_reset(); m_alloc(0, 64, 64); m_alloc(1, 64, 64);
			for (int i = 0; i < 200; i++) m_insert(1, i % 64, (i * 7) % 64);
			for (int i = 0; i < 1300; i++) m_insert(0, i % 64, (i / 64 * 3 + i) % 64);
			m_copy(0, 1); check(&g_m[1], 1);
			for (int i = 0; i < 900; i++) m_insert(1, (i * 11) % 64, (i * 13 + i / 64) % 64);
			check(&g_m[1], 1); check(&g_m[0], 1);
			end_sequence(); rep_case_done(1, 0, 1);
		}
		if (rep_case("scripted bulk operations on matrices that hold exactly 1023 / 1024 / 1025 / 2047 / 2048 / 2049 entries (full allocation blocks, empty free list)")) {
			static const int cnts[] = { 1023, 1024, 1025, 2047, 2048, 2049 };
			for (int ci = 0; ci < 6; ci++) for (int op = 0; op < 5; op++) {
				led_reset(); m_alloc(0, 6, 9); m_alloc(1, 64, 64); m_alloc(2, 64, 64);
				g_hint = NULL;
				for (int x = 0; x < 7; x++) m_insert(0, (x * 5) % 6, (x * 4) % 9);
				for (int x = 0; x < cnts[ci]; x++) m_insert(1, x % 64, (x / 64 + x * 3) % 64);       /* distinct positions, no deletion: the free list is empty at 1024*j */
				rng_t rr = rng_make(7, (uint64_t)ci, (uint64_t)op);
				switch (op) {
				case 0: m_copy(0, 1); break;
				case 1: m_copyrows(0, 1, &rr, 0); break;
				case 2: m_copycols(0, 1, &rr, 0); break;
				case 3: g_keep_dest = 1; m_copyrows(0, 1, &rr, 1); g_keep_dest = 0; break;
				default: m_roundtrip(0, 1, &rr); break;
				}
				check(&g_m[1], 1); check(&g_m[0], 1);
				m_insert(1, 63, 63); m_insert(1, 0, 1); check(&g_m[1], 1);
				m_clear(1); check(&g_m[1], 1); m_insert(1, 5, 5); check(&g_m[1], 1);
				end_sequence();
			}
			rep_case_done(1, 0, 1);
		}
		if (rep_case("scripted copy into a non-empty destination")) { led_reset(); m_alloc(0, 3, 4); m_alloc(1, 4, 5); for (int i = 0; i < 12; i++) m_insert(1, i % 4, i % 5); m_insert(0, 1, 2); m_insert(0, 2, 3); m_copy(0, 1); check(&g_m[1], 1); m_insert(1, 3, 4); m_insert(1, 0, 0); check(&g_m[1], 1); end_sequence(); rep_case_done(1, 0, 1); }
	}
	unit++;
	/* dimensions beyond 2^16 (tall, wide, both): indices that do not fit 16 bits */
	{
		static const uint32_t dims[][2] = { { 70000, 12 }, { 12, 70000 }, { 66000, 66000 }, { 131080, 40 }, { 40, 131080 }, { 65537, 65536 } };
		int reps = T ? 12 : 1;
		for (int d = 0; d < 6; d++, unit++) {
			rep_unit(unit);
			if (!rep_unit_mine(unit)) continue;
			rng_t r = rng_make(g_run.seed, 1790 + (uint64_t)d, 17);
			for (int q = 0; q < reps; q++) {
				int nent = q % 3 == 2 ? 6000 : 1500;
				if (!rep_case("big dimensions %ux%u entries=%d rep=%d", dims[d][0], dims[d][1], nent, q)) { (void)rng_u64(&r); continue; }
				rng_t rr = rng_make(rng_u64(&r), (uint64_t)q, (uint64_t)d);
				big_case(&rr, dims[d][0], dims[d][1], nent);
				rep_case_done(1, 0, 1);
			}
		}
	}
	/* exhaustive small sequences */
	int depth = T ? 5 : 4;
	for (int first = 0; first < 15; first++, unit++) {
		rep_unit(unit);
		if (!rep_unit_mine(unit)) continue;
		if (!rep_case("exhaustive 2x3 sequences starting with op %d, length <= %d", first, depth)) continue;
		uint8_t seq[8] = { (uint8_t)first };
		/* the one-op sequence itself, then its extensions */
		led_reset(); m_alloc(0, 2, 3); m_alloc(1, 2, 3);
		if (first < 6) m_insert(0, first / 3, first % 3); else if (first < 12) m_delete(0, (first - 6) / 3, (first - 6) % 3); else if (first == 12) m_clear(0); else if (first == 13) m_copy(0, 1); else m_copy(1, 0);
		check(&g_m[0], 1); check(&g_m[1], 1); end_sequence(); g_exh++;
		exh_rec(1, depth, seq);
		rep_case_done(1, 0, 1);
	}
	/* random model-based sequences */
	int nunits = 64; long per = T ? 12000 : 320;
	for (int u = 0; u < nunits; u++, unit++) {
		rep_unit(unit);
		if (!rep_unit_mine(unit)) continue;
		rng_t r = rng_make(g_run.seed, 1700 + (uint64_t)u, 17);
		for (long s = 0; s < per; s++) {
			int big = (s % 40) == 39 ? 1 : (s % 40) == 19 ? 2 : 0;       /* beyond one 1024-entry block: block chaining and the free list */
			int len = big == 2 ? 6000 + (int)rng_below(&r, 3000) : big ? 1500 + (int)rng_below(&r, 1500) : 10 + (int)rng_below(&r, 390);
			int maxdim = big ? 70 : 1 + (int)rng_below(&r, 40);
			if (!rep_case("random-sequence len=%d maxdim=%d dense_fill=%d index=%ld", len, maxdim, big, s)) { rng_t skip = rng_make(rng_u64(&r), 1, 1); (void)skip; continue; }
			rng_t rr = rng_make(rng_u64(&r), (uint64_t)s, (uint64_t)u);
			random_sequence(&rr, len, maxdim, big);
			rep_case_done(1, 0, 1);
		}
	}
	rep_count("sparse_operations", g_ops);
	rep_count("exhaustive_small_sequences", g_exh);
	return 0;
}
