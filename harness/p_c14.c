/* C14 — the GF(2^4)/GF(2^8) tables are the fields they claim to be (DESIGN.md §5 C14).
 * Exhaustive, entry by entry, against the bit-serial oracle gf.c. */
#include "common.h"
#include "gf.h"
#include "rs28_tu.h"
#include "lib_stable/reed-solomon_gf_2_m/galois_field_codes_utils/algebra_2_4.h"
#include "lib_stable/reed-solomon_gf_2_m/galois_field_codes_utils/algebra_2_8.h"

#define NEL(a) ((unsigned)(sizeof(a) / sizeof((a)[0])))

static void entry(const char *table, unsigned idx, long got, long want, int meaningful)
{
	if (!rep_case("table=%s index=%u", table, idx)) return;
	if (meaningful) {
		if (got != want) {
			char key[96]; snprintf(key, sizeof key, "table-entry:%s[%u]", table, idx);
			rep_viol(key, "got=%ld want=%ld", got, want);
		}
		rep_count("entries_checked", 1);
	} else {
		rep_count("entries_without_field_meaning_recorded_only", 1);
	}
	rep_case_done(meaningful, 0, 1);
}

static void too_short(const char *table, unsigned have, unsigned need)
{
	if (!rep_case("table=%s length=%u need=%u", table, have, need)) return;
	if (have < need) { char key[96]; snprintf(key, sizeof key, "table-too-short:%s", table); rep_viol(key, "have=%u need=%u", have, need); }
	rep_case_done(1, 0, 1);
}

static void check_set(int m, const char *pfx,
		      const int *logi, const unsigned char *logb, unsigned nlog,
		      const unsigned char *exp, unsigned nexp,
		      const unsigned char *inv, unsigned ninv,
		      const unsigned char *mul, unsigned mrows, unsigned mcols)
{
	unsigned q = 1u << m; char name[64];
	snprintf(name, sizeof name, "%s_log", pfx);
	too_short(name, nlog, q);
	for (unsigned x = 0; x < nlog; x++) {
		long got = logi ? logi[x] : logb[x];
		/* log[x] is meaningful for the non-zero field elements only; log[0] and any doubled part
		 * (index >= 2^m) have no field meaning: recorded, not judged. */
		entry(name, x, got, (x >= 1 && x < q) ? gfo_log(m, x) : -1, x >= 1 && x < q);
	}
	snprintf(name, sizeof name, "%s_exp", pfx);
	too_short(name, nexp, q - 1);
	for (unsigned i = 0; i < nexp; i++) entry(name, i, exp[i], gfo_exp(m, i), 1);
	snprintf(name, sizeof name, "%s_inv", pfx);
	too_short(name, ninv, q);
	for (unsigned x = 0; x < ninv && x < q; x++) {
		if (x == 0) { entry(name, 0, inv[0], -1, 0); continue; }
		entry(name, x, gfo_mul(m, x, inv[x]), 1, 1);       /* inv[x]*x == 1 */
	}
	snprintf(name, sizeof name, "%s_mul", pfx);
	too_short(name, mrows, q);
	too_short(name, mcols, q);
	for (unsigned a = 0; a < mrows && a < q; a++)
		for (unsigned b = 0; b < mcols && b < q; b++)
			entry(name, a * mcols + b, mul[a * mcols + b], gfo_mul(m, a, b), 1);
}

int p_c14(void)
{
	long unit = 0;
	/* unit 0: GF(2^4) static tables */
	rep_unit(unit);
	if (rep_unit_mine(unit)) {
		check_set(4, "of_gf_2_4", NULL, of_gf_2_4_log, NEL(of_gf_2_4_log), of_gf_2_4_exp, NEL(of_gf_2_4_exp),
			  of_gf_2_4_inv, NEL(of_gf_2_4_inv), &of_gf_2_4_mul_table[0][0], NEL(of_gf_2_4_mul_table), 16);
		/* packed table: [c][byte] -> (c*hi)<<4 | (c*lo) */
		too_short("of_gf_2_4_opt_mul", NEL(of_gf_2_4_opt_mul_table), 16);
		for (unsigned c = 0; c < NEL(of_gf_2_4_opt_mul_table) && c < 16; c++)
			for (unsigned b = 0; b < 256; b++)
				entry("of_gf_2_4_opt_mul", c * 256 + b, of_gf_2_4_opt_mul_table[c][b],
				      (long)((gfo_mul(4, c, b >> 4) << 4) | gfo_mul(4, c, b & 15)), 1);
	}
	unit++;
	/* unit 1: GF(2^8) static tables of the GF(2^m) codec */
	rep_unit(unit);
	if (rep_unit_mine(unit))
		check_set(8, "of_gf_2_8", of_gf_2_8_log, NULL, NEL(of_gf_2_8_log), of_gf_2_8_exp, NEL(of_gf_2_8_exp),
			  of_gf_2_8_inv, NEL(of_gf_2_8_inv), &of_gf_2_8_mul_table[0][0], NEL(of_gf_2_8_mul_table), 256);
	unit++;
	/* unit 2: tables generated at first use by the GF(2^8) legacy codec */
	rep_unit(unit);
	if (rep_unit_mine(unit)) {
		unsigned nl, ne, ni, mr, mc;
		tu_rs28_init();
		const int *lg = tu_rs28_log(&nl); const unsigned char *ex = tu_rs28_exp(&ne);
		const unsigned char *iv = tu_rs28_inv(&ni); const unsigned char *mu = tu_rs28_mul(&mr, &mc);
		check_set(8, "of_rs_gf", lg, NULL, nl, ex, ne, iv, ni, mu, mr, mc);
	}
	unit++;
	/* units 3, 4: the generator is an exported function (of_rs_init, declared in of_reed-solomon_gf_2_8.h); an application
	 * that pre-initialises the codec when the tables already exist must still get the field: generated twice and three times */
	for (int extra = 1; extra <= 2; extra++) {
		rep_unit(unit);
		if (rep_unit_mine(unit)) {
			unsigned nl, ne, ni, mr, mc;
			for (int g = 0; g <= extra; g++) tu_rs28_init();
			const int *lg = tu_rs28_log(&nl); const unsigned char *ex = tu_rs28_exp(&ne);
			const unsigned char *iv = tu_rs28_inv(&ni); const unsigned char *mu = tu_rs28_mul(&mr, &mc);
			check_set(8, extra == 1 ? "of_rs_gf_generated_twice" : "of_rs_gf_generated_3_times", lg, NULL, nl, ex, ne, iv, ni, mu, mr, mc);
		}
		unit++;
	}
	return 0;
}
