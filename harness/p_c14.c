/* C14 — the GF(2^4)/GF(2^8) tables are the fields they claim to be (DESIGN.md §5 C14).
 * Exhaustive, entry by entry, against the bit-serial oracle gf.c. */
#include "common.h"
#include "gf.h"
#include "rs28_tu.h"
#include "rsref.h"
#include "of_openfec_api.h"
#include "lib_stable/reed-solomon_gf_2_m/galois_field_codes_utils/algebra_2_4.h"
#include "lib_stable/reed-solomon_gf_2_m/galois_field_codes_utils/algebra_2_8.h"

#define NEL(a) ((unsigned)(sizeof(a) / sizeof((a)[0])))

static void entry(const char *table, unsigned idx, long got, long want, int meaningful)
{
	if (!rep_case("table=%s index=%u", table, idx)) return;
	if (meaningful) {
		if (got != want) {
			char key[96]; snprintf(key, sizeof key, "table-entry:%s[%u]", table, idx);
			rep_viol(key, "got=%ld want=%ld", got, want);
		}
		rep_count("entries_checked", 1);
	} else {
		rep_count("entries_without_field_meaning_recorded_only", 1);
	}
	rep_case_done(meaningful, 0, 1);
}

static void too_short(const char *table, unsigned have, unsigned need)
{
	if (!rep_case("table=%s length=%u need=%u", table, have, need)) return;
	if (have < need) { char key[96]; snprintf(key, sizeof key, "table-too-short:%s", table); rep_viol(key, "have=%u need=%u", have, need); }
	rep_case_done(1, 0, 1);
}

static void check_set(int m, const char *pfx,
		      const int *logi, const unsigned char *logb, unsigned nlog,
		      const unsigned char *exp, unsigned nexp,
		      const unsigned char *inv, unsigned ninv,
		      const unsigned char *mul, unsigned mrows, unsigned mcols)
{
	unsigned q = 1u << m; char name[64];
	snprintf(name, sizeof name, "%s_log", pfx);
	too_short(name, nlog, q);
	for (unsigned x = 0; x < nlog; x++) {
		long got = logi ? logi[x] : logb[x];
		/* log[x] is meaningful for the non-zero field elements only; log[0] and any doubled part
		 * (index >= 2^m) have no field meaning: recorded, not judged. */
		entry(name, x, got, (x >= 1 && x < q) ? gfo_log(m, x) : -1, x >= 1 && x < q);
	}
	snprintf(name, sizeof name, "%s_exp", pfx);
	too_short(name, nexp, q - 1);
	for (unsigned i = 0; i < nexp; i++) entry(name, i, exp[i], gfo_exp(m, i), 1);
	snprintf(name, sizeof name, "%s_inv", pfx);
	too_short(name, ninv, q);
	for (unsigned x = 0; x < ninv && x < q; x++) {
		if (x == 0) { entry(name, 0, inv[0], -1, 0); continue; }
		entry(name, x, gfo_mul(m, x, inv[x]), 1, 1);       /* inv[x]*x == 1 */
	}
	snprintf(name, sizeof name, "%s_mul", pfx);
	too_short(name, mrows, q);
	too_short(name, mcols, q);
	for (unsigned a = 0; a < mrows && a < q; a++)
		for (unsigned b = 0; b < mcols && b < q; b++)
			entry(name, a * mcols + b, mul[a * mcols + b], gfo_mul(m, a, b), 1);
}

/* The tables as a session uses them: which field an RS GF(2^m) instance computes in can be chosen through the parameters, through
 * OF_RS_CTRL_SET_FIELD_SIZE, or both in either order. Whatever the order, the instance advertises one field (MAX_N = 2^m - 1) and
 * every repair symbol must be the product by the reference generator of THAT field (exp, mul and inverse tables all of one field). */
static void tables_in_use(int order, int mf, unsigned k, rng_t *r)
{
	if (!rep_case("tables-in-use field=%d selection-order=%d k=%u n=15", mf, order, k)) return;
	unsigned n = 15, L = 7 + 8 * (k % 4) + (order == 0 ? 0 : 0); int other = mf == 4 ? 8 : 4; char key[96];
	of_session_t *s = NULL; UINT16 fs; of_status_t st = OF_STATUS_OK;
	of_rs_2_m_parameters_t prm; memset(&prm, 0, sizeof prm);
	prm.nb_source_symbols = k; prm.nb_repair_symbols = n - k; prm.encoding_symbol_length = L;
	if (of_create_codec_instance(&s, OF_CODEC_REED_SOLOMON_GF_2_M_STABLE, OF_ENCODER, 0) != OF_STATUS_OK || !s) rep_fatal("C14: cannot create an RS GF(2^m) instance");
	if (order == 1) { fs = (UINT16)mf; st = of_set_control_parameter(s, OF_RS_CTRL_SET_FIELD_SIZE, &fs, sizeof fs); }
	if (order == 2) { fs = (UINT16)other; st = of_set_control_parameter(s, OF_RS_CTRL_SET_FIELD_SIZE, &fs, sizeof fs); }
	prm.m = (UINT16)(order == 3 ? other : mf);
	if (st == OF_STATUS_OK) st = of_set_fec_parameters(s, (of_parameters_t *)&prm);
	if (st == OF_STATUS_OK && order == 3) { fs = (UINT16)mf; st = of_set_control_parameter(s, OF_RS_CTRL_SET_FIELD_SIZE, &fs, sizeof fs); }
	if (st != OF_STATUS_OK) { rep_count("field_selection_orders_refused", 1); of_release_codec_instance(s); rep_case_done(1, 0, 1); return; }
	UINT32 maxn = 0;
	if (of_get_control_parameter(s, OF_CTRL_GET_MAX_N, &maxn, sizeof maxn) != OF_STATUS_OK) maxn = 0;
	int field = maxn == 15 ? 4 : maxn == 255 ? 8 : 0;
	if (!field) { snprintf(key, sizeof key, "tables-in-use:advertised-field:order=%d", order); rep_viol(key, "MAX_N=%u after selecting field 2^%d", maxn, mf); }
	else {
		uint8_t *sym[16], *exp = malloc(L + 1); void *tab[16]; uint8_t *G = malloc((size_t)n * k + 1);
		uint8_t *base[16]; unsigned off = (order + k) & 7;      /* repair buffers at every offset within a word (payload behind a header) */
		for (unsigned i = 0; i < n; i++) { base[i] = calloc(1, L + 16); sym[i] = base[i] + (i >= k ? off : (i & 7)); tab[i] = sym[i]; if (i < k) for (unsigned b = 0; b < L; b++) sym[i][b] = (uint8_t)rng_u64(r); }
		if (rsref_generator(field, k, n, G)) rep_fatal("rsref: singular");
		for (unsigned e = k; e < n; e++) {
			if (of_build_repair_symbol(s, tab, e) != OF_STATUS_OK) { snprintf(key, sizeof key, "tables-in-use:encode-failed:order=%d", order); rep_viol(key, "field 2^%d k=%u esi=%u", field, k, e); break; }
			rsref_encode_row(field, G + (size_t)e * k, k, sym, L, exp);
			if (memcmp(exp, sym[e], L)) { snprintf(key, sizeof key, "tables-in-use:gf2_%d:order=%d", field, order); rep_viol(key, "repair esi=%u of a k=%u n=15 code is not the product by the GF(2^%d) reference generator (the instance advertises MAX_N=%u)", e, k, field, maxn); break; }
			rep_count("repair_symbols_checked_against_the_advertised_field", 1);
		}
		for (unsigned i = 0; i < n; i++) free(base[i]);
		free(exp); free(G);
	}
	of_release_codec_instance(s);
	rep_case_done(1, 0, 1);
}

int p_c14(void)
{
	long unit = 0;
	/* unit 0: GF(2^4) static tables */
	rep_unit(unit);
	if (rep_unit_mine(unit)) {
		check_set(4, "of_gf_2_4", NULL, of_gf_2_4_log, NEL(of_gf_2_4_log), of_gf_2_4_exp, NEL(of_gf_2_4_exp),
			  of_gf_2_4_inv, NEL(of_gf_2_4_inv), &of_gf_2_4_mul_table[0][0], NEL(of_gf_2_4_mul_table), 16);
		/* packed table: [c][byte] -> (c*hi)<<4 | (c*lo) */
		too_short("of_gf_2_4_opt_mul", NEL(of_gf_2_4_opt_mul_table), 16);
		for (unsigned c = 0; c < NEL(of_gf_2_4_opt_mul_table) && c < 16; c++)
			for (unsigned b = 0; b < 256; b++)
				entry("of_gf_2_4_opt_mul", c * 256 + b, of_gf_2_4_opt_mul_table[c][b],
				      (long)((gfo_mul(4, c, b >> 4) << 4) | gfo_mul(4, c, b & 15)), 1);
	}
	unit++;
	/* unit 1: GF(2^8) static tables of the GF(2^m) codec */
	rep_unit(unit);
	if (rep_unit_mine(unit))
		check_set(8, "of_gf_2_8", of_gf_2_8_log, NULL, NEL(of_gf_2_8_log), of_gf_2_8_exp, NEL(of_gf_2_8_exp),
			  of_gf_2_8_inv, NEL(of_gf_2_8_inv), &of_gf_2_8_mul_table[0][0], NEL(of_gf_2_8_mul_table), 256);
	unit++;
	/* unit 2: tables generated at first use by the GF(2^8) legacy codec */
	rep_unit(unit);
	if (rep_unit_mine(unit)) {
		unsigned nl, ne, ni, mr, mc;
		tu_rs28_init();
		const int *lg = tu_rs28_log(&nl); const unsigned char *ex = tu_rs28_exp(&ne);
		const unsigned char *iv = tu_rs28_inv(&ni); const unsigned char *mu = tu_rs28_mul(&mr, &mc);
		check_set(8, "of_rs_gf", lg, NULL, nl, ex, ne, iv, ni, mu, mr, mc);
	}
	unit++;
	/* units 3, 4: the generator is an exported function (of_rs_init, declared in of_reed-solomon_gf_2_8.h); an application
	 * that pre-initialises the codec when the tables already exist must still get the field: generated twice and three times */
	for (int extra = 1; extra <= 2; extra++) {
		rep_unit(unit);
		if (rep_unit_mine(unit)) {
			unsigned nl, ne, ni, mr, mc;
			for (int g = 0; g <= extra; g++) tu_rs28_init();
			const int *lg = tu_rs28_log(&nl); const unsigned char *ex = tu_rs28_exp(&ne);
			const unsigned char *iv = tu_rs28_inv(&ni); const unsigned char *mu = tu_rs28_mul(&mr, &mc);
			check_set(8, extra == 1 ? "of_rs_gf_generated_twice" : "of_rs_gf_generated_3_times", lg, NULL, nl, ex, ne, iv, ni, mu, mr, mc);
		}
		unit++;
	}
	/* the generated tables once more after the codec has been used (codes created, encoded, decoded from every mix of packets
	 * including the k sources themselves): nothing the codec does may write into them */
	rep_unit(unit);
	if (rep_unit_mine(unit)) {
		unsigned nl, ne, ni, mr, mc;
		tu_rs28_init();
		unsigned bad = 0; for (unsigned q = 0; q < 4; q++) bad += tu_rs28_activity((unsigned)g_run.seed + q);
		if (rep_case("low-level activity on the generated tables")) { if (bad) rep_viol("tables-in-use:rs28:low-level-decode", "%u decodes through of_rs_decode did not return the source packets", bad); rep_case_done(1, 0, 1); }
		const int *lg = tu_rs28_log(&nl); const unsigned char *ex = tu_rs28_exp(&ne);
		const unsigned char *iv = tu_rs28_inv(&ni); const unsigned char *mu = tu_rs28_mul(&mr, &mc);
		check_set(8, "of_rs_gf_after_use", lg, NULL, nl, ex, ne, iv, ni, mu, mr, mc);
	}
	unit++;
	rep_unit(unit);
	if (rep_unit_mine(unit)) {
		rng_t r = rng_make(g_run.seed, 1400, 0);
		/* the two fields alternate on the same (k, n): whatever a session leaves behind for the next one is the other field's */
		for (unsigned k = 2; k <= 13; k += (k < 5 ? 1 : 4)) for (int order = 0; order < 4; order++) for (int mf = 4; mf <= 8; mf += 4) tables_in_use(order, mf, k, &r);
		for (unsigned k = 2; k <= 13; k += 3) for (int mf = 8; mf >= 4; mf -= 4) tables_in_use(0, mf, k, &r);
	}
	unit++;
	return 0;
}
