/* Allocation ledger by link-level interposition (-Wl,--wrap=malloc,calloc,realloc,free). DESIGN.md §3.2 */
#ifndef OFH_LEDGER_H
#define OFH_LEDGER_H
#include <stddef.h>
#include <stdint.h>
extern int g_in_lib;                 /* >0 while executing a library API call on behalf of the session under test */
#define LIB_ENTER() (g_in_lib++)
#define LIB_LEAVE() (g_in_lib--)
void     led_reset(void);            /* forget everything (start of a session under ledger) */
int      led_is_lib(const void *p);  /* is p a live block allocated inside a library call? */
size_t   led_size(const void *p);
void     led_handover(const void *p);/* the application takes ownership (decoded source symbol) */
uint64_t led_live_count(void);       /* live library blocks not handed over */
/* iterate the live, not-handed-over library blocks: returns count, fills up to max entries */
typedef struct { void *p; size_t size; void *site; uint64_t seq; void *bt[5]; } led_ent_t;
extern int g_led_deep;
size_t   led_live(led_ent_t *out, size_t max);
extern uint64_t g_led_allocs, g_led_frees, g_led_bad_free;
extern void *g_led_bad_free_ptr, *g_led_bad_free_site;
extern int g_led_active;             /* 0: wrappers pass straight through (e.g. under valgrind) */
#endif
