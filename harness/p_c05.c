/* C05 — the LDPC-Staircase code is the RFC 5170 code and depends only on (k, n, N1, seed)
 * C15 — the "last repair symbol is null" claim is truthful                        (DESIGN.md §5 C05, C15)
 *
 * Observation of the code in use: (i) black box — an identity-payload encoding through the public API
 * reveals every equation; (ii) white box — the public sparse-matrix structure of a session right after
 * of_set_fec_parameters. Oracle: rfc5170.c (transcribed from the RFC, own PRNG). History independence:
 * the same configuration is built after unrelated sessions, interleaved with another construction, and
 * in a freshly exec'ed process. */
#define _GNU_SOURCE
#include "session.h"
#include "arena.h"
#include "rfc5170.h"
#include "of_openfec_api.h"
#include "linear_binary_codes_utils/of_linear_binary_code.h"
#include <unistd.h>

static int g_for15;

typedef struct { unsigned k, r; unsigned *len; unsigned **cols; int staircase_ok; } rows_t;
static void rows_free(rows_t *R) { if (!R->len) return; for (unsigned i = 0; i < R->r; i++) free(R->cols[i]); free(R->cols); free(R->len); memset(R, 0, sizeof *R); }
static uint64_t rows_hash(const rows_t *R)
{
	uint64_t h = hash64(R->k, R->r);
	for (unsigned i = 0; i < R->r; i++) { h = hash64(h, R->len[i]); for (unsigned t = 0; t < R->len[i]; t++) h = hash64(h, R->cols[i][t]); }
	return hash64(h, (uint64_t)R->staircase_ok);
}
static int rows_equal_oracle(const rows_t *R, const rfc_mat_t *M, unsigned *bad_row)
{
	for (unsigned i = 0; i < R->r; i++) {
		if (R->len[i] != M->row_len[i] || memcmp(R->cols[i], M->row_cols[i], R->len[i] * sizeof(unsigned))) { *bad_row = i; return 0; }
	}
	return 1;
}
static int rows_equal(const rows_t *A, const rows_t *B, unsigned *bad_row)
{
	for (unsigned i = 0; i < A->r; i++) if (A->len[i] != B->len[i] || memcmp(A->cols[i], B->cols[i], A->len[i] * sizeof(unsigned))) { *bad_row = i; return 0; }
	return 1;
}

/* white box: walk the session's parity-check matrix */
static void rows_from_session(of_session_t *ses, unsigned k, unsigned r, rows_t *R)
{
	of_linear_binary_code_cb_t *cb = (of_linear_binary_code_cb_t *)ses;
	of_mod2sparse *m = cb->pchk_matrix;
	memset(R, 0, sizeof *R); R->k = k; R->r = r; R->staircase_ok = 1;
	R->len = calloc(r + 1, sizeof(unsigned)); R->cols = calloc(r + 1, sizeof(unsigned *));
	if (!m || (unsigned)of_mod2sparse_rows(m) != r || (unsigned)of_mod2sparse_cols(m) != k + r) { R->staircase_ok = 0; for (unsigned i = 0; i < r; i++) R->cols[i] = calloc(1, sizeof(unsigned)); return; }
	for (unsigned i = 0; i < r; i++) {
		unsigned cnt = 0; of_mod2entry *e;
		for (e = of_mod2sparse_first_in_row(m, i); !of_mod2sparse_at_end(e); e = of_mod2sparse_next_in_row(e)) cnt++;
		R->cols[i] = malloc((cnt + 1) * sizeof(unsigned));
		int has_i = 0, has_im1 = 0, other = 0;
		for (e = of_mod2sparse_first_in_row(m, i); !of_mod2sparse_at_end(e); e = of_mod2sparse_next_in_row(e)) {
			unsigned c = (unsigned)of_mod2sparse_col(e);
			if (c >= r) R->cols[i][R->len[i]++] = c - r;
			else if (c == i) has_i = 1; else if (i && c == i - 1) has_im1 = 1; else other = 1;
		}
		if (!has_i || (i && !has_im1) || other) R->staircase_ok = 0;
	}
}

/* black box: identity-payload encoding */
static int rows_from_encoding(const cfg_t *c0, rows_t *R, int *last_repair_zero_identity)
{
	cfg_t c = *c0; unsigned k = c.k, r = c.r, gw = (k + 63) / 64;
	c.L = gw * 8;
	block_t id; rng_t dummy = rng_make(3, 2, 1);
	const char *sv = g_prop; g_prop = "";
	int rc = block_build(&id, &c, PAY_IDENTITY, &dummy, 0, -1);
	g_prop = sv;
	if (rc) { block_free(&id); return -1; }
	memset(R, 0, sizeof *R); R->k = k; R->r = r; R->staircase_ok = 1;
	R->len = calloc(r + 1, sizeof(unsigned)); R->cols = calloc(r + 1, sizeof(unsigned *));
	uint64_t *S = malloc((size_t)gw * 8 + 8);
	for (unsigned j = 0; j < r; j++) {
		const uint64_t *gj = (const uint64_t *)id.sym[k + j], *gp = j ? (const uint64_t *)id.sym[k + j - 1] : NULL;
		unsigned cnt = 0;
		for (unsigned w = 0; w < gw; w++) { uint64_t a, b = 0; memcpy(&a, (const uint8_t *)gj + w * 8, 8); if (gp) memcpy(&b, (const uint8_t *)gp + w * 8, 8); S[w] = a ^ b; cnt += (unsigned)__builtin_popcountll(S[w]); }
		R->cols[j] = malloc((cnt + 1) * sizeof(unsigned));
		for (unsigned i = 0; i < k; i++) if (S[i / 64] >> (i % 64) & 1) R->cols[j][R->len[j]++] = i;
	}
	int z = 1; for (unsigned b = 0; b < c.L; b++) if (id.sym[k + r - 1][b]) z = 0;
	*last_repair_zero_identity = z;
	free(S); block_free(&id);
	return 0;
}

static of_session_t *make_session(const cfg_t *c, int role, int *claim)
{
	of_session_t *s = NULL; char pb[32];
	if (of_create_codec_instance(&s, (of_codec_id_t)c->codec, (of_codec_type_t)role, 0) != OF_STATUS_OK || !s) return NULL;
	cfg_params(c, pb);
	if (of_set_fec_parameters(s, (of_parameters_t *)pb) != OF_STATUS_OK) { of_release_codec_instance(s); return NULL; }
	if (claim) { UINT32 v = 0; *claim = -1; if (of_get_control_parameter(s, OF_CRTL_LDPC_STAIRCASE_IS_LAST_SYMBOL_NULL, &v, sizeof v) == OF_STATUS_OK) *claim = v ? 1 : 0; }
	return s;
}

/* unrelated activity before / between the construction under test */
static void noise(rng_t *r, int howmany)
{
	for (int i = 0; i < howmany; i++) {
		switch (rng_below(r, 6)) {
		case 0: { cfg_t c = { 3, 0, 1 + rng_below(r, 60), 3 + rng_below(r, 40), 8, 3, 1 + rng_below(r, 2147483646u) }; if (c.N1 > c.r) c.N1 = c.r; of_session_t *s = make_session(&c, OF_ENCODER, NULL); if (s) of_release_codec_instance(s); break; }
		case 1: { cfg_t c = { 1, 0, 3, 2, 4, 0, 0 }; block_t b; rng_t q = *r; const char *sv = g_prop; g_prop = ""; if (block_build(&b, &c, PAY_RANDOM, &q, 0, -1) == 0) { } block_free(&b); g_prop = sv; break; }
		case 2: { cfg_t c = { 5, 0, 4, 4, 4, 0, 0 }; of_session_t *s = make_session(&c, OF_ENCODER, NULL); if (s) of_release_codec_instance(s); break; }
		case 3: srand((unsigned)rng_u64(r)); (void)rand(); break;
		case 4: { /* a decoding session that runs the ML path (which consumes libc rand()) */
			cfg_t c = { 3, 0, 8, 6, 4, 3, 1 + rng_below(r, 1000) }; block_t b; rng_t q = *r; const char *sv = g_prop; g_prop = "";
			if (block_build(&b, &c, PAY_RANDOM, &q, 0, -1) == 0) {
				uint32_t sub[14], m = 0; for (uint32_t e = 0; e < 14; e++) if (rng_below(r, 3)) sub[m++] = e;
				hist_t h = { 0, 1, 0, 0, 0, m, sub, 1 }; hres_t res; run_history(&b, &h, 0, &res);
			}
			block_free(&b); g_prop = sv; break; }
		default: { cfg_t c = { 2, 8, 5, 3, 4, 0, 0 }; of_session_t *s = make_session(&c, OF_DECODER, NULL); if (s) of_release_codec_instance(s); break; }
		}
	}
}

/* child mode: freshly exec'ed process builds one configuration and prints the hashes */
int p_c05_child(void)
{
	const char *a = getenv("OFH_CHILD"); cfg_t c; memset(&c, 0, sizeof c); c.codec = 3; c.L = 8;
	if (!a || sscanf(a, "%u %u %u %u", &c.k, &c.r, &c.N1, &c.seed) != 4) rep_fatal("C05child: bad OFH_CHILD");
	int ce = -1, cd = -1; rows_t E, D;
	of_session_t *e = make_session(&c, OF_ENCODER, &ce);
	if (!e) rep_fatal("C05child: encoder session rejected");
	rows_from_session(e, c.k, c.r, &E); of_release_codec_instance(e);
	of_session_t *d = make_session(&c, OF_DECODER, &cd);
	if (!d) rep_fatal("C05child: decoder session rejected");
	rows_from_session(d, c.k, c.r, &D); of_release_codec_instance(d);
	rep_note("CHILD %llx %llx %d %d", (unsigned long long)rows_hash(&E), (unsigned long long)rows_hash(&D), ce, cd);
	rows_free(&E); rows_free(&D);
	return 0;
}
static int run_child(const cfg_t *c, uint64_t *he, uint64_t *hd, int *ce, int *cd)
{
	char cmd[600], exe[400]; ssize_t n = readlink("/proc/self/exe", exe, sizeof exe - 1);
	if (n <= 0) return -1;
	exe[n] = 0;
	snprintf(cmd, sizeof cmd, "OFH_CUR= OFH_CHILD='%u %u %u %u' ASAN_OPTIONS=detect_leaks=0 timeout -s KILL 120 '%s' C05child 2>/dev/null", c->k, c->r, c->N1, c->seed, exe);
	FILE *f = popen(cmd, "r"); if (!f) return -1;
	char line[400]; int ok = 0;
	while (fgets(line, sizeof line, f)) { unsigned long long a, b; int x, y; if (sscanf(line, "N\tCHILD %llx %llx %d %d", &a, &b, &x, &y) == 4) { *he = a; *hd = b; *ce = x; *cd = y; ok = 1; } }
	pclose(f);
	return ok ? 0 : -1;
}

static const uint32_t LENS[] = { 1, 3, 8, 17, 64 };

static void config_case(uint32_t k, uint32_t r, uint32_t N1, uint32_t seed, int mode, rng_t *rng, int with_child)
{
	cfg_t c = { 3, 0, k, r, 8, N1, seed };
	if (!rep_case("ldpc-config k=%u r=%u N1=%u seed=%u history-mode=%d child=%d", k, r, N1, seed, mode, with_child)) return;
	/* mode 0: built right away; 1: after 1-5 unrelated sessions; 2: another LDPC construction between create and set_fec_parameters */
	if (mode == 1) noise(rng, 1 + (int)rng_below(rng, 5));
	int ce = -1, cd = -1; rows_t E, D, B; memset(&B, 0, sizeof B);
	of_session_t *e = NULL, *d = NULL;
	if (mode == 2) {
		char pb[32];
		if (of_create_codec_instance(&e, OF_CODEC_LDPC_STAIRCASE_STABLE, OF_ENCODER, 0) != OF_STATUS_OK) e = NULL;
		noise(rng, 2);
		cfg_t o = { 3, 0, k + 1, r + 2, 8, 3, seed == 1 ? 2 : seed - 1 }; of_session_t *os = make_session(&o, OF_DECODER, NULL);
		cfg_params(&c, pb);
		if (e && of_set_fec_parameters(e, (of_parameters_t *)pb) != OF_STATUS_OK) { of_release_codec_instance(e); e = NULL; }
		if (e) { UINT32 v = 0; if (of_get_control_parameter(e, OF_CRTL_LDPC_STAIRCASE_IS_LAST_SYMBOL_NULL, &v, sizeof v) == OF_STATUS_OK) ce = v ? 1 : 0; }
		if (os) of_release_codec_instance(os);
	} else e = make_session(&c, OF_ENCODER, &ce);
	if (!e) { rep_viol("reject-inside:ldpc", "encoder session rejected k=%u r=%u N1=%u seed=%u", k, r, N1, seed); rep_case_done(1, 0, 1); return; }
	rows_from_session(e, k, r, &E);
	if (mode == 1) noise(rng, 1);
	d = make_session(&c, OF_DECODER, &cd);
	if (!d) { rep_viol("reject-inside:ldpc", "decoder session rejected k=%u r=%u N1=%u seed=%u", k, r, N1, seed); of_release_codec_instance(e); rows_free(&E); rep_case_done(1, 0, 1); return; }
	rows_from_session(d, k, r, &D);
	of_release_codec_instance(e); of_release_codec_instance(d);
	rfc_mat_t *M = rfc5170_build(k, r, N1, seed);
	unsigned bad = 0; int zero_id = -1;
	int have_bb = k <= 8192 && (uint64_t)(k + r) * ((k + 63) / 64 * 8) < (64u << 20) && rows_from_encoding(&c, &B, &zero_id) == 0;
	if (!g_for15) {
		if (!E.staircase_ok || !rows_equal_oracle(&E, M, &bad)) rep_viol("matrix-differs-from-rfc", "encoder session: row %u (staircase ok=%d) differs from RFC 5170 for k=%u r=%u N1=%u seed=%u", bad, E.staircase_ok, k, r, N1, seed);
		else if (!D.staircase_ok || !rows_equal_oracle(&D, M, &bad)) rep_viol("matrix-differs-from-rfc", "decoder session: row %u differs from RFC 5170 for k=%u r=%u N1=%u seed=%u", bad, k, r, N1, seed);
		if (!rows_equal(&E, &D, &bad)) rep_viol("enc-dec-matrix-differ", "row %u differs between an encoder and a decoder session", bad);
		if (have_bb && !rows_equal_oracle(&B, M, &bad)) rep_viol("matrix-differs-from-rfc", "equations revealed by encoding unit vectors: row %u differs from RFC 5170 (k=%u r=%u N1=%u seed=%u)", bad, k, r, N1, seed);
		/* a session that claims a null last repair symbol works with the extra equation p_{n-1} = 0 (a decoder injects that symbol):
		 * RFC 5170's equations imply it only when every source column has even weight */
		if ((ce == 1 || cd == 1) && !M->all_source_cols_even) rep_viol("session-assumes-equation-not-in-rfc", "null-last-symbol claim enc=%d dec=%d but RFC 5170's matrix has a source column of odd weight (k=%u r=%u N1=%u seed=%u)", ce, cd, k, r, N1, seed);
		if (have_bb) rep_count("configs_observed_black_box", 1);
		rep_count("configs_observed_white_box", 2);
		if (with_child) {
			uint64_t he = 0, hd = 0; int xe = -2, xd = -2;
			if (run_child(&c, &he, &hd, &xe, &xd)) {
				/* this process built the matrix, a fresh one died or made no progress in 300 s on the same parameters */
				rep_viol("history-dependent-matrix", "a freshly exec'ed process does not build the matrix for k=%u r=%u N1=%u seed=%u (died or hung), this process did", k, r, N1, seed);
				he = rows_hash(&E); hd = rows_hash(&D); xe = ce; xd = cd;
			}
			if (he != rows_hash(&E) || hd != rows_hash(&D)) rep_viol("history-dependent-matrix", "matrix built in this process (history mode %d) differs from the one built by a fresh process", mode);
			if (xe != ce || xd != cd) rep_viol("history-dependent-matrix", "null-claim differs from a fresh process (%d/%d vs %d/%d)", ce, cd, xe, xd);
			rep_count("configs_compared_with_fresh_process", 1);
		}
	} else {
		/* C15 */
		if (ce != cd) rep_viol("null-claim-enc-dec", "encoder claims %d, decoder claims %d (k=%u r=%u N1=%u seed=%u)", ce, cd, k, r, N1, seed);
		if (ce == 1 || cd == 1) {
			rep_count("true_claims_observed", 1);
			if (have_bb && !zero_id) rep_viol("null-claim-false", "claim true but the last repair symbol of the unit-vector block is non-zero (k=%u r=%u N1=%u seed=%u)", k, r, N1, seed);
			for (int p = 0; p < 3; p++) {
				cfg_t c2 = c; c2.L = LENS[rng_below(rng, 5)]; block_t b; const char *sv = g_prop; g_prop = "";
				int rc = block_build(&b, &c2, PAY_RANDOM, rng, 0, -1); g_prop = sv;
				if (rc == 0) { for (uint32_t x = 0; x < c2.L; x++) if (b.sym[k + r - 1][x]) { rep_viol("null-claim-false", "claim true but the last repair symbol is non-zero for a random source block (k=%u r=%u N1=%u seed=%u L=%u)", k, r, N1, seed, c2.L); break; } rep_count("random_blocks_checked_under_true_claim", 1); }
				block_free(&b);
			}
			if (!M->all_source_cols_even) rep_note("claim true although the RFC matrix has an odd-weight source column: k=%u r=%u N1=%u seed=%u (the symbol was still checked directly)", k, r, N1, seed);
		} else { rep_count("false_claims_observed", 1); if (have_bb && zero_id) rep_count("false_claim_but_symbol_zero_anyway", 1); }
	}
	if (g_for15 && !(N1 & 1) && k + r <= 3000 && have_bb) {
		/* the claim over the life of a decoder session: every repair symbol and no source (iterative decoding stalls, of_finish_decoding
		 * goes through Gaussian elimination and releases the matrix), then a second one with everything but one source */
		cfg_t c2 = c; c2.L = LENS[rng_below(rng, 5)] + 8 * rng_below(rng, 4); block_t b; const char *sv = g_prop; g_prop = "";
		int rc = block_build(&b, &c2, PAY_RANDOM, rng, 0, -1); g_prop = sv;
		if (rc == 0) {
			uint32_t *sub = malloc((size_t)(k + r + 1) * sizeof *sub), m = 0;
			for (uint32_t e = k; e < k + r; e++) sub[m++] = e;
			hist_t h1 = { (int)rng_below(rng, 2), 1, 0, (int)rng_below(rng, 2), 0, m, sub, (int)(k + r), 0, 0 }; hres_t res;
			run_history(&b, &h1, MON_C01, &res);
			m = 0; for (uint32_t e = 1; e < k + r; e++) sub[m++] = e;
			hist_t h2 = { 0, 1, 0, 0, 0, m, sub, (int)(k + r), 0, 0 };
			run_history(&b, &h2, MON_C01, &res);
			/* what a decoder that believes the claim does with it: one source lost, every other source received, and of the repair
			 * symbols only ESI n-2 (the decoder supplies ESI n-1 itself): the source comes back through the last equation or not at all */
			if ((ce == 1 || cd == 1) && r >= 2) for (uint32_t q = 0; q < (k <= 48 ? k : 12); q++) {
				uint32_t lost = k <= 48 ? q : rng_below(rng, k); m = 0;
				for (uint32_t e = 0; e < k; e++) if (e != lost) sub[m++] = e;
				sub[m++] = k + r - 2;
				hist_t h3 = { (int)(q & 1), (int)((q >> 1) & 1), 0, 0, 0, m, sub, (int)(k + r), 0, 0 };
				run_history(&b, &h3, MON_C01, &res);
				rep_count("last_equation_probes_under_a_true_claim", 1);
			}
			free(sub);
		}
		block_free(&b);
	}
	int nontriv = g_for15 ? (ce == 1 || cd == 1) : 1;
	if (M->extra_added) rep_sample("extra-entries-added"); else if (!(N1 & 1)) rep_sample("even-N1-no-extra"); else rep_sample("odd-N1");
	rfc5170_free(M); rows_free(&E); rows_free(&D); rows_free(&B);
	rep_case_done(nontriv, hash64(hash64(k, r), hash64(N1, seed)) ^ (uint64_t)mode, 0);
}

/* C15 on parameter sets the documentation puts outside the limits (N1 > n-k): the library may refuse them; if it accepts one,
 * "for all accepted parameters" applies and a true claim must still be truthful. No reference matrix is involved. */
static void claim_case_outside(uint32_t k, uint32_t r, uint32_t N1, uint32_t seed, rng_t *rng)
{
	cfg_t c = { 3, 0, k, r, 8, N1, seed };
	if (!rep_case("ldpc-config-outside-limits k=%u r=%u N1=%u seed=%u", k, r, N1, seed)) return;
	int ce = -1, cd = -1;
	of_session_t *e = make_session(&c, OF_ENCODER, &ce), *d = make_session(&c, OF_DECODER, &cd);
	if (e) of_release_codec_instance(e);
	if (d) of_release_codec_instance(d);
	if (!e || !d) { rep_count("outside_limit_configs_refused", 1); rep_case_done(1, 0, 1); return; }
	rep_count("outside_limit_configs_accepted", 1);
	if (ce != cd) rep_viol("null-claim-enc-dec", "encoder claims %d, decoder claims %d (k=%u r=%u N1=%u seed=%u)", ce, cd, k, r, N1, seed);
	if (ce == 1 || cd == 1) {
		rep_count("true_claims_observed", 1);
		for (int p = 0; p < 4; p++) {
			cfg_t c2 = c; c2.L = LENS[rng_below(rng, 5)]; block_t b; const char *sv = g_prop; g_prop = "";
			int rc = block_build(&b, &c2, p == 0 ? PAY_IDENTITY : PAY_RANDOM, rng, 0, -1); g_prop = sv;
			if (rc == 0) { for (uint32_t x = 0; x < c2.L; x++) if (b.sym[k + r - 1][x]) { rep_viol("null-claim-false", "claim true but the last repair symbol is non-zero (k=%u r=%u N1=%u seed=%u L=%u, accepted although N1 > n-k)", k, r, N1, seed, c2.L); break; } rep_count("random_blocks_checked_under_true_claim", 1); }
			block_free(&b);
		}
	}
	rep_case_done(1, 0, 1);
}

static int worker(void)
{
	ar_init();
	long unit = 0; int T = g_run.thorough;
	static const uint32_t fixed_seeds[] = { 1, 2, 16807, 2147483646u };
	/* small grid: k in 1..40, r in 3..40 */
	for (uint32_t k = 1; k <= 40; k++) for (uint32_t r0 = 3; r0 <= 40; r0 += 8, unit++) {
		rep_unit(unit);
		if (!rep_unit_mine(unit)) continue;
		rng_t rng = rng_make(g_run.seed, 500 + k, r0);
		for (uint32_t r = r0; r < r0 + 8 && r <= 40; r++) {
			if (!T && ((k + r) % 3)) continue;
			for (uint32_t N1 = 3; N1 <= r && N1 <= 10; N1++) {
				if (g_for15 && (N1 & 1) && (k + r + N1) % 5) continue;     /* odd N1 only as controls */
				int ns = T ? 10 : 2;
				for (int s = 0; s < ns; s++) {
					uint32_t seed = s < 2 ? fixed_seeds[(k + r + N1 + (unsigned)s) % 4] : 1 + (uint32_t)(rng_u64(&rng) % 2147483646u);
					int mode = (int)((k + r + N1 + (unsigned)s) % 3);
					int child = !g_for15 && ((k * 41 + r * 7 + N1 + (unsigned)s) % (T ? 40 : 211) == 0);
					config_case(k, r, N1, seed, mode, &rng, child);
				}
			}
			if (r > 10) config_case(k, r, r, fixed_seeds[(k + r) % 4], (int)((k + r) % 3), &rng, 0);   /* N1 = r */
		}
	}
	/* large left degrees up to the UINT8 limit of the N1 parameter */
	{
		static const uint32_t bigN1[] = { 12, 16, 31, 32, 64, 127, 128, 200, 254, 255 }; static const uint32_t ks2[] = { 1, 2, 5, 20, 100 };
		for (unsigned i = 0; i < sizeof bigN1 / sizeof bigN1[0]; i++, unit++) {
			rep_unit(unit);
			if (!rep_unit_mine(unit)) continue;
			rng_t rng = rng_make(g_run.seed, 550, i);
			for (unsigned j = 0; j < sizeof ks2 / sizeof ks2[0]; j++) for (int e = 0; e < 3; e++) {
				uint32_t N1 = bigN1[i], r = e == 0 ? N1 : e == 1 ? N1 + 1 : 2 * N1 + 3;
				if (!T && ks2[j] == 100 && N1 > 64) continue;
				config_case(ks2[j], r, N1, fixed_seeds[(i + j + (unsigned)e) % 4], (int)((i + j) % 3), &rng, 0);
			}
		}
	}
	if (g_for15) {
		/* the number of extra entries (rows topped up to weight 2) is about 2(n-k) - N1*k at low rates: put it on and around the
		 * 8-bit and 16-bit boundaries, where a narrowed counter or flag would go wrong */
		static const uint32_t tk[] = { 8, 16, 32, 64, 100 }; static const uint32_t targets[] = { 1, 2, 255, 256, 257, 511, 512, 513, 1024, 65535, 65536, 65537 };
		for (unsigned i = 0; i < sizeof tk / sizeof tk[0]; i++, unit++) {
			rep_unit(unit);
			if (!rep_unit_mine(unit)) continue;
			rng_t rng = rng_make(g_run.seed, 560, i);
			for (uint32_t N1 = 4; N1 <= 6; N1 += 2) for (unsigned t = 0; t < sizeof targets / sizeof targets[0]; t++) {
				uint32_t est = (targets[t] + N1 * tk[i]) / 2;
				for (int d = -2; d <= 2; d++) {
					uint32_t r = est + (uint32_t)d; if (r < N1 || tk[i] + r > 50000) continue;
					if (!T && targets[t] > 60000 && d != 0 && d != 1) continue;
					config_case(tk[i], r, N1, fixed_seeds[(t + i) % 4], (int)((t + i) % 3), &rng, 0);
				}
			}
		}
		/* outside the documented limits: N1 above n-k, n-k below 3 */
		rep_unit(unit);
		if (rep_unit_mine(unit)) {
			rng_t rng = rng_make(g_run.seed, 565, 0);
			static const uint32_t ok_[] = { 1, 2, 5, 20, 100 };
			for (unsigned i = 0; i < 5; i++) for (uint32_t N1 = 3; N1 <= 12; N1++) for (uint32_t r = 1; r < N1; r++)
				claim_case_outside(ok_[i], r, N1, fixed_seeds[(i + N1 + r) % 4], &rng);
			for (unsigned i = 0; i < 5; i++) for (uint32_t r = 1; r <= 2; r++) for (uint32_t N1 = 1; N1 <= 2; N1++) claim_case_outside(ok_[i], r, N1, 1, &rng);
		}
		unit++;
		/* random low-rate family */
		for (int u = 0; u < 16; u++, unit++) {
			rep_unit(unit);
			if (!rep_unit_mine(unit)) continue;
			rng_t rng = rng_make(g_run.seed, 570, (uint64_t)u);
			for (int s = 0; s < (T ? 4000 : 150); s++) {
				uint32_t k = 1 + rng_below(&rng, 128), N1 = 4 + 2 * rng_below(&rng, 4), r = N1 + rng_below(&rng, 1024);
				if (rng_below(&rng, 8) == 0) N1 = 3 + 2 * rng_below(&rng, 3);
				if (N1 > r) N1 = r;
				config_case(k, r, N1, 1 + (uint32_t)(rng_u64(&rng) % 2147483646u), (int)rng_below(&rng, 3), &rng, 0);
			}
		}
	}
	/* random medium family: any rate, left degrees up to 24, seeds over the whole legal range */
	for (int u = 0; u < 16; u++, unit++) {
		rep_unit(unit);
		if (!rep_unit_mine(unit)) continue;
		rng_t rng = rng_make(g_run.seed, 580, (uint64_t)u);
		for (int s = 0; s < (T ? 4000 : 100); s++) {
			uint32_t N1 = 3 + rng_below(&rng, rng_below(&rng, 4) ? 8 : 22), k = 1 + rng_below(&rng, rng_below(&rng, 5) ? 120 : 700), r = N1 + rng_below(&rng, rng_below(&rng, 5) ? 120 : 700);
			if (g_for15 && (N1 & 1) && rng_below(&rng, 4)) N1++;
			if (N1 > r) r = N1;
			config_case(k, r, N1, 1 + (uint32_t)(rng_u64(&rng) % 2147483646u), (int)rng_below(&rng, 3), &rng, 0);
		}
	}
	/* (N1*k)^2 around and above 2^33: the number of PRNG draws times the range of each draw is large enough for a one-in-2^31
	 * deviation of the scaling to show in a single matrix */
	rep_unit(unit);
	if (rep_unit_mine(unit)) {
		rng_t rng = rng_make(g_run.seed, 585, 0);
		config_case(30000, 300, 8, fixed_seeds[g_run.seed % 4], 0, &rng, 0);
		config_case(12000, 6000, 10, 1 + (uint32_t)(rng_u64(&rng) % 2147483646u), 1, &rng, 0);
		config_case(49000, 1000, 6, 16807, 2, &rng, 0);
	}
	unit++;
	/* almost full columns (N1 close to n-k), high N1, thousands of sources: the builder redraws thousands of times per entry */
	rep_unit(unit);
	if (rep_unit_mine(unit)) {
		rng_t rng = rng_make(g_run.seed, 586, 0);
		config_case(2000, 140, 128, fixed_seeds[(g_run.seed + 1) % 4], 0, &rng, 0);
		config_case(1000, 260, 254, 1 + (uint32_t)(rng_u64(&rng) % 2147483646u), 1, &rng, 0);
		config_case(3000, 101, 100, 4, 2, &rng, 0);
		if (T) { config_case(2000, 255, 254, 1, 0, &rng, 0); config_case(10000, 31, 30, 1 + (uint32_t)(rng_u64(&rng) % 2147483646u), 0, &rng, 0); config_case(5000, 66, 64, 2, 1, &rng, 0); }
	}
	unit++;
	/* larger configurations */
	static const uint32_t lk[] = { 64, 100, 257, 1000, 5000, 20000, 49997 };
	for (unsigned i = 0; i < sizeof lk / sizeof lk[0]; i++, unit++) {
		rep_unit(unit);
		if (!rep_unit_mine(unit)) continue;
		rng_t rng = rng_make(g_run.seed, 590, i);
		uint32_t k = lk[i];
		uint32_t rl[4] = { 3, k / 2, k, 3 * k };
		for (int j = 0; j < 4; j++) {
			uint32_t r = rl[j]; if (r < 3) r = 3;
			if ((uint64_t)k + r > 50000) r = 50000 - k;
			if (r < 3) continue;
			if (!T && k >= 5000 && j > 1) continue;
			for (uint32_t N1 = 3; N1 <= 10 && N1 <= r; N1 += (T ? 1 : 3)) {
				if (k >= 20000 && N1 > 4 && !T) continue;
				config_case(k, r, N1, fixed_seeds[(i + N1) % 4], (int)((i + N1) % 3), &rng, !g_for15 && N1 == 3 && j == 0);
			}
		}
	}
	return 0;
}

int p_c05(void) { g_prop = "C05"; g_for15 = 0; return worker(); }
int p_c15(void) { g_prop = "C15"; g_for15 = 1; return worker(); }
