/* Reporting channel between the harness and the driver (DESIGN.md §3.2 "Case descriptors", §3.3).
 *
 * Line protocol on the report fd (the original stdout of the process):
 *   V <TAB> key <TAB> unit:case descriptor <TAB> detail        a violation (at most 3 lines per key)
 *   K <TAB> key <TAB> count                                    total per key (at exit)
 *   C <TAB> name <TAB> value                                   counter (at exit; summed by the driver)
 *   M <TAB> name <TAB> value                                   maximum (at exit; max-ed by the driver)
 *   E <TAB> class <TAB> descriptor                             a sample case
 *   N <TAB> text                                               a note
 *   D                                                          the shard finished normally
 * The library's own stdout/stderr chatter is sent to /dev/null.
 */
#define _GNU_SOURCE
#include "common.h"
#include <unistd.h>
#include <fcntl.h>
#include <sys/mman.h>

run_t g_run;
int g_report_fd = 1;
uint64_t g_viol_total;

static char *g_cur;            /* 4096-byte shared mapping (or private buffer) holding the current case */
static char  g_cur_priv[4096];
static long  g_unit = -1, g_case = -1;

#define MAXCNT 96
static struct { const char *name; uint64_t v; int is_max; } g_cnt[MAXCNT];
static int g_ncnt;

#define MAXKEYS 64
static struct { char key[160]; uint64_t n; } g_keys[MAXKEYS];
static int g_nkeys;

#define MAXSAMP 16
static struct { char cls[48]; int n; } g_samp[MAXSAMP];
static int g_nsamp;

/* open-addressing set of 64-bit keys for distinct counting */
static uint64_t *g_set; static size_t g_setcap, g_setn;
static uint64_t g_eval, g_nontriv, g_distinct;

uint64_t hash_bytes(const void *p, size_t n, uint64_t h)
{
	const unsigned char *b = p;
	h ^= 0xcbf29ce484222325ULL;
	for (size_t i = 0; i < n; i++) { h ^= b[i]; h *= 0x100000001b3ULL; }
	return hash64(h, n);
}

static void out(const char *buf, size_t n)
{
	while (n) { ssize_t w = write(g_report_fd, buf, n); if (w <= 0) return; buf += w; n -= (size_t)w; }
}

void rep_init(void)
{
	const char *cur = getenv("OFH_CUR");
	g_cur = g_cur_priv;
	if (cur && *cur) {
		int fd = open(cur, O_RDWR | O_CREAT, 0644);
		if (fd >= 0 && ftruncate(fd, 4096) == 0) {
			void *m = mmap(NULL, 4096, PROT_READ | PROT_WRITE, MAP_SHARED, fd, 0);
			if (m != MAP_FAILED) g_cur = m;
		}
		if (fd >= 0) close(fd);
	}
	g_cur[0] = 0;
	fflush(stdout);
	g_report_fd = dup(1);
	if (!getenv("OFH_LIBOUT")) {
		int nul = open("/dev/null", O_WRONLY);
		/* OFH_KEEP_STDERR: the driver captured fd 2 in a file (UBSan reports of the gcc runtime go there) */
		if (nul >= 0) { dup2(nul, 1); if (!getenv("OFH_KEEP_STDERR")) dup2(nul, 2); close(nul); }
	}
	g_setcap = 1u << 16; g_set = calloc(g_setcap, sizeof *g_set);
}

void rep_unit(long unit) { g_unit = unit; g_case = -1; }

int rep_unit_mine(long unit)
{
	if (g_run.only_unit >= 0) return unit == g_run.only_unit;
	if (g_run.nshards > 1 && (unit % g_run.nshards) != g_run.shard) return 0;
	if (g_run.skip_unit >= 0 && unit < g_run.skip_unit) return 0;
	return 1;
}

int rep_case(const char *fmt, ...)
{
	g_case++;
	if (g_run.only_case >= 0 && (g_unit != g_run.only_unit || g_case != g_run.only_case)) return 0;
	if (g_run.skip_unit >= 0 && g_unit == g_run.skip_unit && g_case <= g_run.skip_case) return 0;
	int n = snprintf(g_cur, 4000, "%ld:%ld ", g_unit, g_case);
	va_list ap; va_start(ap, fmt);
	vsnprintf(g_cur + n, 4000 - (size_t)n, fmt, ap);
	va_end(ap);
	if (g_run.verbose) { out("# CASE ", 7); out(g_cur, strlen(g_cur)); out("\n", 1); }
	return 1;
}

const char *rep_curcase(void) { return g_cur; }
/* the case just declared (and skipped) is the one a previous run of this shard died in */
int rep_is_resume_point(void) { return g_run.skip_unit >= 0 && g_unit == g_run.skip_unit && g_case == g_run.skip_case; }

static void set_grow(void)
{
	size_t ncap = g_setcap * 2; uint64_t *ns = calloc(ncap, sizeof *ns);
	if (!ns) return;
	for (size_t i = 0; i < g_setcap; i++) if (g_set[i]) {
		size_t j = (size_t)(g_set[i] * 0x9E3779B97F4A7C15ULL >> 20) & (ncap - 1);
		while (ns[j]) j = (j + 1) & (ncap - 1);
		ns[j] = g_set[i];
	}
	free(g_set); g_set = ns; g_setcap = ncap;
}

void rep_case_done(int nontrivial, uint64_t key, int unique)
{
	g_eval++;
	if (!nontrivial) return;
	g_nontriv++;
	if (unique) { g_distinct++; return; }
	if (!key) key = 1;
	if (g_setn * 10 >= g_setcap * 6 && g_setcap < (1u << 26)) set_grow();
	if (g_setn * 10 >= g_setcap * 9) return;                 /* saturated: count conservatively (no increment) */
	size_t j = (size_t)(key * 0x9E3779B97F4A7C15ULL >> 20) & (g_setcap - 1);
	while (g_set[j]) { if (g_set[j] == key) return; j = (j + 1) & (g_setcap - 1); }
	g_set[j] = key; g_setn++; g_distinct++;
}

void rep_viol(const char *key, const char *fmt, ...)
{
	int i;
	g_viol_total++;
	for (i = 0; i < g_nkeys; i++) if (!strcmp(g_keys[i].key, key)) break;
	if (i == g_nkeys) {
		if (g_nkeys == MAXKEYS) i = MAXKEYS - 1;
		else { snprintf(g_keys[i].key, sizeof g_keys[i].key, "%s", key); g_keys[i].n = 0; g_nkeys++; }
	}
	if (g_keys[i].n++ >= 3) return;
	char buf[6000]; int n = snprintf(buf, sizeof buf, "V\t%s\t%s\t", key, g_cur);
	va_list ap; va_start(ap, fmt);
	int m = vsnprintf(buf + n, sizeof buf - (size_t)n - 2, fmt, ap);
	va_end(ap);
	if (m < 0) m = 0;
	n += m; if (n > (int)sizeof buf - 2) n = sizeof buf - 2;
	for (int j = 2; j < n; j++) if (buf[j] == '\n') buf[j] = ' ';
	buf[n++] = '\n';
	out(buf, (size_t)n);
}

/* the case cannot be judged by this property's monitor (e.g. the library dies in it regardless of what the property is about) */
void rep_inconclusive(const char *fmt, ...)
{
	static int n_emitted;
	if (n_emitted++ >= 5) return;
	char buf[2000]; int n = snprintf(buf, sizeof buf, "I\t%s\t", g_cur);
	va_list ap; va_start(ap, fmt);
	int m = vsnprintf(buf + n, sizeof buf - (size_t)n - 2, fmt, ap);
	va_end(ap);
	if (m < 0) m = 0;
	n += m; if (n > (int)sizeof buf - 2) n = sizeof buf - 2;
	for (int j = 2; j < n; j++) if (buf[j] == '\n') buf[j] = ' ';
	buf[n++] = '\n';
	out(buf, (size_t)n);
}

void rep_note(const char *fmt, ...)
{
	char buf[2000]; int n = snprintf(buf, sizeof buf, "N\t");
	va_list ap; va_start(ap, fmt);
	int m = vsnprintf(buf + n, sizeof buf - (size_t)n - 2, fmt, ap);
	va_end(ap);
	if (m < 0) m = 0;
	n += m; if (n > (int)sizeof buf - 2) n = sizeof buf - 2;
	for (int j = 2; j < n; j++) if (buf[j] == '\n') buf[j] = ' ';
	buf[n++] = '\n';
	out(buf, (size_t)n);
}

static int cnt_find(const char *name, int is_max)
{
	for (int i = 0; i < g_ncnt; i++) if (!strcmp(g_cnt[i].name, name)) return i;
	if (g_ncnt == MAXCNT) return MAXCNT - 1;
	g_cnt[g_ncnt].name = strdup(name); g_cnt[g_ncnt].v = 0; g_cnt[g_ncnt].is_max = is_max;
	return g_ncnt++;
}
void rep_count(const char *name, uint64_t add) { g_cnt[cnt_find(name, 0)].v += add; }
void rep_max(const char *name, uint64_t v) { int i = cnt_find(name, 1); if (v > g_cnt[i].v) g_cnt[i].v = v; }

void rep_sample(const char *cls)
{
	int i;
	for (i = 0; i < g_nsamp; i++) if (!strcmp(g_samp[i].cls, cls)) break;
	if (i == g_nsamp) { if (g_nsamp == MAXSAMP) return; snprintf(g_samp[i].cls, sizeof g_samp[i].cls, "%s", cls); g_samp[i].n = 0; g_nsamp++; }
	if (g_samp[i].n++ >= 2) return;
	char buf[4400]; int n = snprintf(buf, sizeof buf, "E\t%s\t%s\n", cls, g_cur);
	out(buf, (size_t)n);
}

void rep_finish(void)
{
	char buf[400]; int n;
	n = snprintf(buf, sizeof buf, "C\tevaluations\t%llu\nC\tnontrivial\t%llu\nC\tdistinct_nontrivial\t%llu\n",
		(unsigned long long)g_eval, (unsigned long long)g_nontriv, (unsigned long long)g_distinct);
	out(buf, (size_t)n);
	for (int i = 0; i < g_ncnt; i++) {
		n = snprintf(buf, sizeof buf, "%c\t%s\t%llu\n", g_cnt[i].is_max ? 'M' : 'C', g_cnt[i].name, (unsigned long long)g_cnt[i].v);
		out(buf, (size_t)n);
	}
	for (int i = 0; i < g_nkeys; i++) {
		n = snprintf(buf, sizeof buf, "K\t%s\t%llu\n", g_keys[i].key, (unsigned long long)g_keys[i].n);
		out(buf, (size_t)n);
	}
	g_cur[0] = 0;
	out("D\n", 2);
}

void rep_fatal(const char *fmt, ...)
{
	char buf[2000]; int n = snprintf(buf, sizeof buf, "F\t");
	va_list ap; va_start(ap, fmt);
	int m = vsnprintf(buf + n, sizeof buf - (size_t)n - 2, fmt, ap);
	va_end(ap);
	if (m < 0) m = 0;
	n += m; if (n > (int)sizeof buf - 2) n = sizeof buf - 2;
	buf[n++] = '\n';
	out(buf, (size_t)n);
	_exit(2);
}
