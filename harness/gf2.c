#include "gf2.h"
#include <stdlib.h>
#include <string.h>

unsigned gf2_rank(uint64_t *rows, unsigned nrows, unsigned words)
{
	unsigned rank = 0;
	for (unsigned w = 0; w < words && rank < nrows; w++)
		for (unsigned b = 0; b < 64 && rank < nrows; b++) {
			uint64_t bit = 1ULL << b; unsigned p = rank;
			while (p < nrows && !(rows[(size_t)p * words + w] & bit)) p++;
			if (p == nrows) continue;
			if (p != rank) for (unsigned j = w; j < words; j++) { uint64_t t = rows[(size_t)p * words + j]; rows[(size_t)p * words + j] = rows[(size_t)rank * words + j]; rows[(size_t)rank * words + j] = t; }
			for (unsigned r = rank + 1; r < nrows; r++) if (rows[(size_t)r * words + w] & bit)
				for (unsigned j = w; j < words; j++) rows[(size_t)r * words + j] ^= rows[(size_t)rank * words + j];
			rank++;
		}
	return rank;
}

gf2_sys_t *gf2_sys_new(unsigned neq, unsigned nsym, const unsigned *eq_len, unsigned *const *eq_syms)
{
	gf2_sys_t *s = calloc(1, sizeof *s);
	s->neq = neq; s->nsym = nsym;
	s->eq_off = calloc(neq + 1, sizeof(unsigned)); s->sy_off = calloc(nsym + 2, sizeof(unsigned));
	size_t tot = 0;
	for (unsigned e = 0; e < neq; e++) { s->eq_off[e] = (unsigned)tot; tot += eq_len[e]; }
	s->eq_off[neq] = (unsigned)tot;
	s->eq_sym = malloc((tot + 1) * sizeof(unsigned)); s->sy_eq = malloc((tot + 1) * sizeof(unsigned));
	for (unsigned e = 0; e < neq; e++) for (unsigned i = 0; i < eq_len[e]; i++) { s->eq_sym[s->eq_off[e] + i] = eq_syms[e][i]; s->sy_off[eq_syms[e][i] + 1]++; }
	for (unsigned y = 0; y < nsym; y++) s->sy_off[y + 1] += s->sy_off[y];
	unsigned *fill = calloc(nsym + 1, sizeof(unsigned));
	for (unsigned e = 0; e < neq; e++) for (unsigned i = 0; i < eq_len[e]; i++) { unsigned y = eq_syms[e][i]; s->sy_eq[s->sy_off[y] + fill[y]++] = e; }
	free(fill);
	return s;
}
void gf2_sys_free(gf2_sys_t *s) { if (!s) return; free(s->eq_off); free(s->eq_sym); free(s->sy_off); free(s->sy_eq); free(s); }

gf2_peel_t *gf2_peel_new(const gf2_sys_t *s)
{
	gf2_peel_t *p = calloc(1, sizeof *p);
	p->s = s; p->known = malloc(s->nsym + 1); p->unk = malloc((s->neq + 1) * sizeof(unsigned)); p->queue = malloc((s->nsym + 1) * sizeof(unsigned));
	gf2_peel_reset(p);
	return p;
}
void gf2_peel_reset(gf2_peel_t *p)
{
	memset(p->known, 0, p->s->nsym); p->nknown = 0;
	for (unsigned e = 0; e < p->s->neq; e++) p->unk[e] = p->s->eq_off[e + 1] - p->s->eq_off[e];
}
void gf2_peel_add(gf2_peel_t *p, unsigned sym)
{
	const gf2_sys_t *s = p->s; unsigned qh = 0, qt = 0;
	if (p->known[sym]) return;
	p->known[sym] = 1; p->nknown++; p->queue[qt++] = sym;
	while (qh < qt) {
		unsigned y = p->queue[qh++];
		for (unsigned i = s->sy_off[y]; i < s->sy_off[y + 1]; i++) {
			unsigned e = s->sy_eq[i];
			if (--p->unk[e] == 1) {
				for (unsigned j = s->eq_off[e]; j < s->eq_off[e + 1]; j++) {
					unsigned z = s->eq_sym[j];
					if (!p->known[z]) { p->known[z] = 1; p->nknown++; p->queue[qt++] = z; break; }
				}
			}
		}
	}
}
void gf2_peel_free(gf2_peel_t *p) { if (!p) return; free(p->known); free(p->unk); free(p->queue); free(p); }

/* self-test: rank against brute-force null-space enumeration (<= 10 columns); peeling-solvable => full column rank */
static uint64_t xs(uint64_t *s) { *s ^= *s << 13; *s ^= *s >> 7; *s ^= *s << 17; return *s; }
int selftest_gf2(void)
{
	uint64_t st = 0x1234567ULL;
	for (int it = 0; it < 3000; it++) {
		unsigned cols = 1 + (unsigned)(xs(&st) % 10), nr = 1 + (unsigned)(xs(&st) % 12);
		uint64_t rows[12], copy[12];
		for (unsigned r = 0; r < nr; r++) { rows[r] = xs(&st) & ((1ULL << cols) - 1); if (xs(&st) % 4 == 0 && r) rows[r] = rows[r - 1]; copy[r] = rows[r]; }
		unsigned rk = gf2_rank(copy, nr, 1);
		/* nullity = log2 |{x : A x = 0}| */
		unsigned nullcount = 0;
		for (uint64_t x = 0; x < (1ULL << cols); x++) {
			int ok = 1;
			for (unsigned r = 0; r < nr && ok; r++) if (__builtin_popcountll(rows[r] & x) & 1) ok = 0;
			nullcount += (unsigned)ok;
		}
		unsigned nullity = 0; while ((1u << nullity) < nullcount) nullity++;
		if ((1u << nullity) != nullcount || rk + nullity != cols) return 1;
	}
	/* multiword rank: identity-like and duplicated rows across word boundaries */
	{
		unsigned words = 3, nr = 130; uint64_t *m = calloc((size_t)nr * words, 8);
		for (unsigned r = 0; r < nr; r++) { unsigned c = r % 100; m[(size_t)r * words + c / 64] |= 1ULL << (c % 64); if (r + 1 < 130) { unsigned c2 = (r + 1) % 100; m[(size_t)r * words + c2 / 64] ^= 1ULL << (c2 % 64); } }
		unsigned rk = gf2_rank(m, nr, words); free(m);
		if (rk > 100 || rk < 99) return 2;
	}
	/* peeling on a small staircase-like system: everything known after receiving all "sources" */
	{
		unsigned l0[] = { 2, 0 }, l1[] = { 2, 3, 1 }, l2[] = { 3, 4, 0 }; unsigned *eqs[] = { l0, l1, l2 }; unsigned len[] = { 2, 3, 3 };
		gf2_sys_t *s = gf2_sys_new(3, 5, len, eqs); gf2_peel_t *p = gf2_peel_new(s);
		gf2_peel_add(p, 0); if (p->nknown != 2 || !p->known[2]) return 3;      /* eq0: {2,0} -> 2 */
		gf2_peel_add(p, 1); if (p->nknown != 5) return 4;                         /* eq1 -> 3, eq2 -> 4 */
		gf2_peel_reset(p); gf2_peel_add(p, 4); if (p->nknown != 1) return 5;
		gf2_peel_free(p); gf2_sys_free(s);
	}
	return 0;
}
