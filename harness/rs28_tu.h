#ifndef OFH_RS28_TU_H
#define OFH_RS28_TU_H
void tu_rs28_init(void);
const unsigned char *tu_rs28_exp(unsigned *len);
const int *tu_rs28_log(unsigned *len);
const unsigned char *tu_rs28_inv(unsigned *len);
const unsigned char *tu_rs28_mul(unsigned *rows, unsigned *cols);
void tu_rs28_addmul1(unsigned char *dst, unsigned char *src, unsigned char c, int sz);
unsigned tu_rs28_activity(unsigned seed);
#endif
