/* which parts of the harness exist (stubs.c provides the rest) */
#define HAVE_CODEC 1
#define HAVE_RSREF 1
#define HAVE_GF2 1
#define HAVE_RFC5170 1
#define HAVE_C05 1
#define HAVE_C06 1
#define HAVE_C15 1
#define HAVE_C09 1
#define HAVE_C16 1
#define HAVE_C17 1
#define HAVE_C18 1
#define HAVE_C12 1
