/* C20 — eperftool block partitioning follows RFC 5052 (DESIGN.md §5 C20).
 * The real applis/eperftool/blocking_struct.c is compiled from the snapshot; oracle = integer arithmetic. */
#include "common.h"
#include "of_openfec_api.h"
#include "applis/eperftool/blocking_struct.h"
#include <fenv.h>
#include <errno.h>
#include <pthread.h>

static uint64_t g_checked;

static void one_mode(uint32_t B, uint32_t L, uint32_t E, int announce, int unique, int mode);
/* every point in the default floating-point environment and once more under a directed rounding mode (the function computes
 * with doubles; the structure it returns is defined by integers and must not depend on the caller's rounding direction) */
static void one(uint32_t B, uint32_t L, uint32_t E, int announce, int unique)
{
	static const int modes[3] = { FE_UPWARD, FE_DOWNWARD, FE_TOWARDZERO };
	one_mode(B, L, E, announce, unique, FE_TONEAREST);
	int m = modes[(B * 31u + L * 7u + E) % 3];
	fesetround(m); one_mode(B, L, E, 0, 0, m); fesetround(FE_TONEAREST);
	/* and once with a stale error code left in errno by something the caller did earlier (nothing obliges a program to clear it) */
	errno = ((B + L + E) & 1) ? ERANGE : EDOM; one_mode(B, L, E, 0, 0, FE_TONEAREST); errno = 0;
}
static void one_mode(uint32_t B, uint32_t L, uint32_t E, int announce, int unique, int mode)
{
	if (announce && !rep_case("B=%u L=%u E=%u", B, L, E)) return;
	of_blocking_struct_t bs; memset(&bs, 0xAB, sizeof bs);
	of_compute_blocking_struct(B, L, E, &bs);
	if (mode != FE_TONEAREST) { fesetround(FE_TONEAREST); rep_count("points_checked_under_a_directed_rounding_mode", 1); }
	uint64_t T = ((uint64_t)L + E - 1) / E;
	uint64_t N = (T + B - 1) / B;
	uint64_t As = T / N, Al = (T + N - 1) / N, I = T - As * N;
	if (bs.nb_blocks != N) rep_viol("blocking:nb_blocks", "B=%u L=%u E=%u got=%u want=%llu", B, L, E, bs.nb_blocks, (unsigned long long)N);
	else if (bs.A_small != As) rep_viol("blocking:A_small", "B=%u L=%u E=%u got=%u want=%llu", B, L, E, bs.A_small, (unsigned long long)As);
	else if (bs.A_large != Al) rep_viol("blocking:A_large", "B=%u L=%u E=%u got=%u want=%llu", B, L, E, bs.A_large, (unsigned long long)Al);
	else if (bs.I != I) rep_viol("blocking:I", "B=%u L=%u E=%u got=%u want=%llu", B, L, E, bs.I, (unsigned long long)I);
	else if (bs.A_large > B) rep_viol("blocking:A_large", "A_large %u > B %u (L=%u E=%u)", bs.A_large, B, L, E);
	else if ((uint64_t)bs.I * bs.A_large + ((uint64_t)bs.nb_blocks - bs.I) * bs.A_small != T)
		rep_viol("blocking:sum", "B=%u L=%u E=%u", B, L, E);
	g_checked++;
	if (announce) rep_case_done(1, hash64(hash64(B, L), E), unique);
}

/* The function has no state of its own: several threads asking at the same time, each with its own output structure, must each
 * get the structure of their own (B, L, E). Mismatches are collected per thread and reported after the join. */
typedef struct { uint64_t seed; long n; long bad; uint32_t B, L, E; of_blocking_struct_t got; } thr_blk_t;
static void *thr_blk(void *a)
{
	thr_blk_t *t = a; rng_t r = rng_make(t->seed, 2090, 20);
	for (long i = 0; i < t->n; i++) {
		uint32_t E = 1 + rng_below(&r, rng_below(&r, 2) ? 16 : 1500), L = 1 + rng_below(&r, rng_below(&r, 2) ? 5000 : 3000000), B = 1 + rng_below(&r, rng_below(&r, 2) ? 64 : 5000);
		of_blocking_struct_t bs; memset(&bs, 0xCD, sizeof bs);
		of_compute_blocking_struct(B, L, E, &bs);
		uint64_t T = ((uint64_t)L + E - 1) / E, N = (T + B - 1) / B, As = T / N, Al = (T + N - 1) / N, I = T - As * N;
		if (bs.nb_blocks != N || bs.A_small != As || bs.A_large != Al || bs.I != I) { if (!t->bad) { t->B = B; t->L = L; t->E = E; t->got = bs; } t->bad++; }
	}
	return NULL;
}

int p_c20(void)
{
	long unit = 0;
	uint32_t lim = g_run.thorough ? 8000 : 600;
	/* exhaustive T,B in 1..lim with E=1: one unit per block of 50 values of B; one announced case per (B, T-range) */
	for (uint32_t b0 = 1; b0 <= lim; b0 += 50, unit++) {
		rep_unit(unit);
		if (!rep_unit_mine(unit)) continue;
		for (uint32_t B = b0; B < b0 + 50 && B <= lim; B++) {
			if (!rep_case("exhaustive E=1 B=%u T=1..%u", B, lim)) continue;
			for (uint32_t T = 1; T <= lim; T++) one(B, T, 1, 0, 1);
			rep_count("exhaustive_points", lim);
			rep_case_done(1, 0, 1);
		}
	}
	/* E in {2,3,7,1024}: L around multiples of E, B over a spread */
	static const uint32_t Es[] = { 2, 3, 7, 1024 };
	for (unsigned e = 0; e < 4; e++, unit++) {
		rep_unit(unit);
		if (!rep_unit_mine(unit)) continue;
		uint32_t E = Es[e], tl = g_run.thorough ? 4000 : 300;
		for (uint32_t B = 1; B <= tl; B += (B < 40 ? 1 : 7)) {
			if (!rep_case("around-multiples E=%u B=%u T=1..%u", E, B, tl)) continue;
			for (uint32_t T = 1; T <= tl; T++)
				for (int d = -1; d <= 1; d++) {
					int64_t L = (int64_t)T * E + d;
					if (L >= 1) one(B, (uint32_t)L, E, 0, 1);
				}
			rep_count("around_multiple_points", 3 * tl);
			rep_case_done(1, 0, 1);
		}
	}
	/* sampled triples over the 32-bit range, biased to boundaries */
	int nunits = 32; long per = g_run.thorough ? 1600000 : 32000;
	for (int u = 0; u < nunits; u++, unit++) {
		rep_unit(unit);
		if (!rep_unit_mine(unit)) continue;
		rng_t r = rng_make(g_run.seed, 2000 + u, 20);
		for (long i = 0; i < per; i++) {
			uint32_t B, L, E;
			switch (rng_below(&r, 8)) {
			case 0: E = 1; break;
			case 1: E = 1 + rng_below(&r, 16); break;
			case 2: E = 1u << rng_below(&r, 32); break;
			case 3: E = 0xFFFFFFFFu - rng_below(&r, 4); break;
			default: E = 1 + (uint32_t)(rng_u64(&r) >> (32 + rng_below(&r, 31))); break;
			}
			switch (rng_below(&r, 8)) {
			case 0: L = 0xFFFFFFFFu - rng_below(&r, 1024); break;
			case 1: L = (1u << (1 + rng_below(&r, 31))) + rng_below(&r, 3) - 1; break;
			case 2: L = 1 + rng_below(&r, 100000); break;
			default: L = 1 + (uint32_t)(rng_u64(&r) >> (32 + rng_below(&r, 31))); break;
			}
			if (L == 0) L = 1;
			uint64_t T = ((uint64_t)L + E - 1) / E;
			switch (rng_below(&r, 8)) {
			case 0: B = 1; break;
			case 1: B = 1 + rng_below(&r, 4); break;
			case 2: B = (uint32_t)(T > 0xFFFFFFFFu ? 0xFFFFFFFFu : T) + rng_below(&r, 3); if (B > 1 && rng_below(&r, 2)) B -= 2; break;
			case 3: B = 0xFFFFFFFFu - rng_below(&r, 4); break;
			case 4: B = 1 + rng_below(&r, 65536); break;
			default: B = 1 + (uint32_t)(rng_u64(&r) >> (32 + rng_below(&r, 31))); break;
			}
			if (B == 0) B = 1;
			one(B, L, E, 1, 0);
		}
	}
	for (int u = 0; u < 4; u++, unit++) {
		rep_unit(unit);
		if (!rep_unit_mine(unit)) continue;
		if (!rep_case("4 threads computing different structures at the same time, round %d", u)) continue;
		thr_blk_t t[4]; pthread_t th[4]; memset(t, 0, sizeof t);
		for (int q = 0; q < 4; q++) { t[q].seed = g_run.seed * 16 + (uint64_t)u * 4 + (uint64_t)q; t[q].n = g_run.thorough ? 2000000 : 200000; if (pthread_create(&th[q], NULL, thr_blk, &t[q])) rep_fatal("pthread_create"); }
		for (int q = 0; q < 4; q++) pthread_join(th[q], NULL);
		for (int q = 0; q < 4; q++) { g_checked += (uint64_t)t[q].n; if (t[q].bad) rep_viol("blocking:concurrent-callers", "%ld of %ld structures computed by one of 4 concurrent threads are not those of its own arguments, e.g. B=%u L=%u E=%u got N=%u I=%u A_large=%u A_small=%u", t[q].bad, t[q].n, t[q].B, t[q].L, t[q].E, t[q].got.nb_blocks, t[q].got.I, t[q].got.A_large, t[q].got.A_small); }
		rep_count("points_computed_by_concurrent_threads", (uint64_t)(4 * t[0].n));
		rep_case_done(1, 0, 1);
	}
	rep_count("points_checked", g_checked);
	return 0;
}
