/* GF(2) oracles: bitset rank and peeling (iterative erasure) closure. DESIGN.md §3.2 */
#ifndef OFH_GF2_H
#define OFH_GF2_H
#include <stdint.h>
#include <stddef.h>
/* rank of nrows bit-rows of `words` 64-bit words each (rows are destroyed) */
unsigned gf2_rank(uint64_t *rows, unsigned nrows, unsigned words);

/* sparse system of parity-check equations over symbols 0..nsym-1 */
typedef struct {
	unsigned neq, nsym;
	unsigned *eq_off, *eq_sym;     /* CSR: symbols of equation e are eq_sym[eq_off[e] .. eq_off[e+1]) */
	unsigned *sy_off, *sy_eq;      /* CSR transpose */
} gf2_sys_t;
gf2_sys_t *gf2_sys_new(unsigned neq, unsigned nsym, const unsigned *eq_len, unsigned *const *eq_syms);
void gf2_sys_free(gf2_sys_t *s);

/* incremental peeling state */
typedef struct {
	const gf2_sys_t *s;
	uint8_t *known;       /* per symbol */
	unsigned *unk;        /* unknown count per equation */
	unsigned *queue; unsigned nknown;
} gf2_peel_t;
gf2_peel_t *gf2_peel_new(const gf2_sys_t *s);
void gf2_peel_reset(gf2_peel_t *p);
void gf2_peel_add(gf2_peel_t *p, unsigned sym);   /* symbol received: closure is updated */
void gf2_peel_free(gf2_peel_t *p);
int  selftest_gf2(void);
#endif
