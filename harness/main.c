/* ofh — harness entry point: ofh <property> [tier=quick|thorough] [seed=N] [shard=i/n] [skip=U:C] [only=U:C] [verbose=1] */
#include "common.h"
#include "arena.h"
#include <unistd.h>

static const struct { const char *id; int (*fn)(void); } g_props[] = {
	{ "selftest", selftest }, { "C05child", p_c05_child }, { "C12child", p_c12_child },
	{ "C01", p_codec }, { "C02", p_codec }, { "C03", p_codec }, { "C04", p_codec }, { "C07", p_codec },
	{ "C08", p_codec }, { "C10", p_codec }, { "C11", p_codec },
	{ "C05", p_c05 }, { "C06", p_c06 }, { "C09", p_c09 }, { "C12", p_c12 }, { "C13", p_c13 }, { "C14", p_c14 },
	{ "C15", p_c15 }, { "C16", p_c16 }, { "C17", p_c17 }, { "C18", p_c18 }, { "C19", p_c19 }, { "C20", p_c20 },
};

int main(int argc, char **argv)
{
	if (argc < 2) { fprintf(stderr, "usage: ofh <property> [key=value...]\n"); return 2; }
	g_run.prop = argv[1]; g_run.nshards = 1; g_run.skip_unit = g_run.skip_case = -1; g_run.only_unit = g_run.only_case = -1;
	g_run.variant = "?";
	for (int i = 2; i < argc; i++) {
		char *a = argv[i];
		if (!strncmp(a, "tier=", 5)) g_run.thorough = !strcmp(a + 5, "thorough");
		else if (!strncmp(a, "seed=", 5)) g_run.seed = strtoull(a + 5, NULL, 10);
		else if (!strncmp(a, "shard=", 6)) sscanf(a + 6, "%d/%d", &g_run.shard, &g_run.nshards);
		else if (!strncmp(a, "skip=", 5)) sscanf(a + 5, "%ld:%ld", &g_run.skip_unit, &g_run.skip_case);
		else if (!strncmp(a, "only=", 5)) sscanf(a + 5, "%ld:%ld", &g_run.only_unit, &g_run.only_case);
		else if (!strncmp(a, "verbose=", 8)) g_run.verbose = atoi(a + 8);
		else if (!strncmp(a, "variant=", 8)) g_run.variant = a + 8;
		else { fprintf(stderr, "ofh: unknown argument %s\n", a); return 2; }
	}
	if (g_run.nshards < 1 || g_run.shard < 0 || g_run.shard >= g_run.nshards) { fprintf(stderr, "ofh: bad shard\n"); return 2; }
	rep_init();
	ar_init();      /* fault handlers of the -O3 build (no-op on sanitizer builds): every crash is attributed */
	for (unsigned i = 0; i < sizeof g_props / sizeof g_props[0]; i++)
		if (!strcmp(g_props[i].id, g_run.prop)) {
			int rc = g_props[i].fn();
			rep_finish();
			return rc;
		}
	rep_fatal("unknown property %s", g_run.prop);
}
