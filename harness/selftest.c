/* Oracle self-tests (DESIGN.md §8): an oracle that fails here makes every check exit 2. */
#include "common.h"
#include "have.h"
#include "gf.h"
#include "rsref.h"
#include "gf2.h"
#include "rfc5170.h"
int selftest_models(void);
int selftest(void)
{
	int rc;
	if ((rc = gfo_selftest())) rep_fatal("selftest: gf oracle failed (%d)", rc);
	rep_count("selftest_gf_ok", 1);
#ifdef HAVE_RSREF
	if ((rc = selftest_rsref())) rep_fatal("selftest: rsref oracle failed (%d)", rc);
	rep_count("selftest_rsref_ok", 1);
#endif
#ifdef HAVE_GF2
	if ((rc = selftest_gf2())) rep_fatal("selftest: gf2 oracle failed (%d)", rc);
	rep_count("selftest_gf2_ok", 1);
#endif
#ifdef HAVE_RFC5170
	if ((rc = selftest_rfc5170())) rep_fatal("selftest: rfc5170 oracle failed (%d)", rc);
	rep_count("selftest_rfc5170_ok", 1);
#endif
#ifdef HAVE_MODELS
	if ((rc = selftest_models())) rep_fatal("selftest: set/bit-matrix models failed (%d)", rc);
	rep_count("selftest_models_ok", 1);
#endif
	return 0;
}
