/* C13 — symbol kernels are exact for every length, operand count and alignment (DESIGN.md §5 C13).
 * Oracle: byte-wise definition with gf.c arithmetic. Out-of-bounds accesses are caught by the arena
 * (exact-size heap blocks under ASan / memcheck, trailing guard page + PROT_READ sources on rel). */
#include "common.h"
#include <sys/mman.h>
#include "arena.h"
#include "gf.h"
#include "rs28_tu.h"
#include "of_openfec_api.h"
#include "linear_binary_codes_utils/of_linear_binary_code.h"
#include "lib_stable/reed-solomon_gf_2_m/of_reed-solomon_gf_2_m_includes.h"

static unsigned char o8[256][256], o4[16][16];
static void oracle_tables(void)
{
	for (unsigned a = 0; a < 256; a++) for (unsigned b = 0; b < 256; b++) o8[a][b] = (unsigned char)gfo_mul(8, a, b);
	for (unsigned a = 0; a < 16; a++) for (unsigned b = 0; b < 16; b++) o4[a][b] = (unsigned char)gfo_mul(4, a, b);
}
static void fill(rng_t *r, uint8_t *p, size_t n, int lim16)
{
	for (size_t i = 0; i < n; i++) { p[i] = (uint8_t)rng_u64(r); if (lim16) p[i] &= 15; }
}

/* structured contents: kernels with a fast path for zero words / zero bytes (or one that should not have one) see them at
 * every granularity; dense random data would show an aligned all-zero 64-bit word once in 2^64 */
static void fill_sparse(rng_t *r, uint8_t *p, size_t n, int lim16)
{
	unsigned mode = rng_below(r, 8);
	fill(r, p, n, lim16);
	if (mode >= 6) {
		/* 16-byte blocks whose two 64-bit halves are arithmetically related: x,-x  x,x  x,~x  0,x  x,0  ~0,~0  single bits.
		 * A "whole block is zero" test written with + or ^ instead of | is fooled by exactly these. */
		for (size_t i = 0; i + 16 <= n; i += 16) {
			uint64_t x = rng_u64(r), a, b;
			switch (rng_below(r, 8)) {
			case 0: a = x; b = (uint64_t)0 - x; break;
			case 1: a = x; b = x; break;
			case 2: a = x; b = ~x; break;
			case 3: a = 0; b = x; break;
			case 4: a = x; b = 0; break;
			case 5: a = b = ~(uint64_t)0; break;
			case 6: a = 1ULL << (x & 63); b = (uint64_t)0 - a; break;
			default: a = 0x8000000000000000ULL; b = a; break;
			}
			if (lim16) { a &= 0x0F0F0F0F0F0F0F0FULL; b &= 0x0F0F0F0F0F0F0F0FULL; }
			memcpy(p + i, &a, 8); memcpy(p + i + 8, &b, 8);
		}
		return;
	}
	switch (mode) {
	case 0: memset(p, 0, n); break;                                                        /* all zero */
	case 1: for (size_t i = 0; i < n; i += 8) if (rng_below(r, 2)) memset(p + i, 0, n - i < 8 ? n - i : 8); break;   /* zero 64-bit words (relative to the start) */
	case 2: for (size_t i = 0; i < n; i += 4) if (rng_below(r, 2)) memset(p + i, 0, n - i < 4 ? n - i : 4); break;   /* zero 32-bit words */
	case 3: for (size_t i = 0; i < n; i++) if (rng_below(r, 3)) p[i] = 0; break;                                       /* zero bytes */
	case 4: { size_t a = n ? rng_below(r, (uint32_t)n) : 0, b = n ? rng_below(r, (uint32_t)n) : 0; if (a > b) { size_t t = a; a = b; b = t; } memset(p + a, 0, b - a); } break;   /* one zero run (padding) */
	default: for (size_t i = 0; i < n; i++) p[i] = lim16 ? (uint8_t)(i & 1 ? 15 : 1) : (uint8_t)(i & 1 ? 0xFF : 1); break;  /* 1 and the all-ones element */
	}
}

enum { K_ADD1, K_FROM, K_TO, K_RS28, K_M8, K_M4, K_M4C, K_N };
static const char *kname[K_N] = { "of_add_to_symbol", "of_add_from_multiple_symbols", "of_add_to_multiple_symbols",
	"of_addmul1", "of_galois_field_2_8_addmul1", "of_galois_field_2_4_addmul1", "of_galois_field_2_4_addmul1_compact" };

static void bad(int k, const char *what, const char *fmt, ...)
{
	char key[96], det[300]; va_list ap;
	snprintf(key, sizeof key, "kernel-%s:%s", what, kname[k]);
	va_start(ap, fmt); vsnprintf(det, sizeof det, fmt, ap); va_end(ap);
	rep_viol(key, "%s", det);
}

/* XOR kernels: one case = (kernel, size, count, destination alignment, per-operand alignments from rng) */
static void xor_case(int k, uint32_t size, uint32_t cnt, unsigned dal, rng_t *r, int sparse)
{
	if (!rep_case("kernel=%s size=%u count=%u dst_align=%u contents=%s", kname[k], size, cnt, dal, sparse ? "structured" : "dense")) return;
	uint32_t nb = cnt ? cnt : 1;
	uint8_t *one = ar_alloc(size, dal, AR_KERNEL, 0);
	uint8_t **many = calloc(nb, sizeof *many), **copy = calloc(nb, sizeof *copy);
	uint8_t *one0 = malloc(size + 1), *exp = malloc(size + 1);
	if (sparse) fill_sparse(r, one, size, 0); else fill(r, one, size, 0);
	memcpy(one0, one, size);
	for (uint32_t j = 0; j < cnt; j++) {
		many[j] = ar_alloc(size, rng_below(r, 8), AR_KERNEL, (long)j + 1);
		copy[j] = malloc(size + 1);
		if (sparse && rng_below(r, 2)) fill_sparse(r, many[j], size, 0); else fill(r, many[j], size, 0);
		memcpy(copy[j], many[j], size);
	}
	/* pointer tables are application memory too */
	void **tab = ar_alloc(cnt * sizeof(void *), 0, AR_PTRTAB, 0);
	for (uint32_t j = 0; j < cnt; j++) tab[j] = many[j];
	ar_ro(tab);
	if (k == K_ADD1) {        /* to ^= from ; "one" is the destination, many[0] the source */
		if (cnt) { ar_ro(many[0]);
			of_add_to_symbol(one, many[0], size);
			for (uint32_t i = 0; i < size; i++) exp[i] = one0[i] ^ copy[0][i];
			if (memcmp(one, exp, size)) bad(k, "wrong", "size=%u", size);
			if (ar_check(many[0])) bad(k, "oob", "source modified size=%u", size);
		}
	} else if (k == K_FROM) { /* one ^= XOR of many */
		for (uint32_t j = 0; j < cnt; j++) ar_ro(many[j]);
		of_add_from_multiple_symbols(one, (const void **)tab, cnt, size);
		memcpy(exp, one0, size);
		for (uint32_t j = 0; j < cnt; j++) for (uint32_t i = 0; i < size; i++) exp[i] ^= copy[j][i];
		if (memcmp(one, exp, size)) bad(k, "wrong", "size=%u count=%u", size, cnt);
		for (uint32_t j = 0; j < cnt; j++) if (ar_check(many[j])) bad(k, "oob", "source %u modified", j);
	} else {                  /* every many[j] ^= one */
		ar_ro(one);
		of_add_to_multiple_symbols((void **)tab, one, cnt, size);
		for (uint32_t j = 0; j < cnt; j++) {
			for (uint32_t i = 0; i < size; i++) exp[i] = copy[j][i] ^ one0[i];
			if (memcmp(many[j], exp, size)) { bad(k, "wrong", "size=%u count=%u operand=%u", size, cnt, j); break; }
		}
		if (ar_check(one)) bad(k, "oob", "source modified");
	}
	if (ar_check(tab)) bad(k, "oob", "pointer table modified");
	for (uint32_t j = 0; j < cnt; j++) { if (ar_check(many[j])) bad(k, "oob", "canary before operand %u", j); ar_free(many[j]); free(copy[j]); }
	if (ar_check(one)) bad(k, "oob", "canary before buffer");
	ar_free(tab); ar_free(one); free(many); free(copy); free(one0); free(exp);
	rep_count("kernel_calls", 1);
	rep_case_done(size > 0 && cnt > 0, 0, 1);
}

/* multiply-accumulate kernels: one case = (kernel, size, dst align, src align), sweeping every constant */
static void mul_case(int k, uint32_t size, unsigned dal, unsigned sal, rng_t *r, int sparse)
{
	if (!rep_case("kernel=%s size=%u dst_align=%u src_align=%u constants=all contents=%s", kname[k], size, dal, sal, sparse ? "structured" : "dense")) return;
	int lim16 = k == K_M4; unsigned ncst = (k == K_M4 || k == K_M4C) ? 16 : 256;
	uint8_t *dst = ar_alloc(size, dal, AR_KERNEL, 0), *src = ar_alloc(size, sal, AR_KERNEL, 1);
	uint8_t *d0 = malloc(size + 1), *exp = malloc(size + 1);
	if (sparse) { fill_sparse(r, src, size, lim16); if (rng_below(r, 2)) fill_sparse(r, d0, size, lim16); else fill(r, d0, size, lim16); }
	else { fill(r, src, size, lim16); fill(r, d0, size, lim16); }
	ar_ro(src);
	for (unsigned c = 0; c < ncst; c++) {
		ar_rw(dst); memcpy(dst, d0, size);
		switch (k) {
		case K_RS28: tu_rs28_addmul1(dst, src, (unsigned char)c, (int)size); break;
		case K_M8:   of_galois_field_2_8_addmul1(dst, src, (gf)c, (int)size); break;
		case K_M4:   of_galois_field_2_4_addmul1(dst, src, (gf)c, (int)size); break;
		default:     of_galois_field_2_4_addmul1_compact(dst, src, (gf)c, (int)size); break;
		}
		for (uint32_t i = 0; i < size; i++) {
			if (k == K_RS28 || k == K_M8) exp[i] = d0[i] ^ o8[c][src[i]];
			else if (k == K_M4) exp[i] = d0[i] ^ o4[c][src[i]];
			else exp[i] = d0[i] ^ (uint8_t)((o4[c][src[i] >> 4] << 4) | o4[c][src[i] & 15]);
		}
		if (memcmp(dst, exp, size)) { bad(k, "wrong", "size=%u c=%u", size, c); break; }
		rep_count("kernel_calls", 1);
	}
	if (ar_check(src)) bad(k, "oob", "source modified");
	if (ar_check(dst)) bad(k, "oob", "canary before destination");
	ar_free(dst); ar_free(src); free(d0); free(exp);
	rep_case_done(size > 0, 0, 1);
}

/* the same buffer several times in one operand table (the definition "to_j ^= from for every j" / "to ^= from_j for every j" is
 * order independent): every count up to 24 with one to three repeated entries at every pair of positions within a group of 8 */
static void alias_case(int k, uint32_t size, uint32_t cnt, rng_t *r)
{
	if (!rep_case("kernel=%s size=%u count=%u repeated operands", kname[k], size, cnt)) return;
	uint8_t *buf[24], *b0[24], *one = ar_alloc(size, (unsigned)(size & 7), AR_KERNEL, 0), *one0 = malloc(size + 1), *exp = malloc(size + 1);
	void *tab[24]; unsigned mult[24]; memset(mult, 0, sizeof mult);
	for (uint32_t j = 0; j < cnt; j++) { buf[j] = ar_alloc(size, rng_below(r, 8), AR_KERNEL, (long)j + 1); fill(r, buf[j], size, 0); b0[j] = malloc(size + 1); memcpy(b0[j], buf[j], size); tab[j] = buf[j]; }
	fill(r, one, size, 0); memcpy(one0, one, size);
	unsigned nrep = 1 + rng_below(r, 3);
	for (unsigned q = 0; q < nrep; q++) { uint32_t a = rng_below(r, cnt), b = rng_below(r, cnt); tab[b] = tab[a]; }
	for (uint32_t j = 0; j < cnt; j++) for (uint32_t x = 0; x < cnt; x++) if (tab[j] == buf[x]) mult[x]++;
	if (k == K_FROM) {
		of_add_from_multiple_symbols(one, (const void **)tab, cnt, size);
		memcpy(exp, one0, size);
		for (uint32_t x = 0; x < cnt; x++) if (mult[x] & 1) for (uint32_t i = 0; i < size; i++) exp[i] ^= b0[x][i];
		if (memcmp(one, exp, size)) bad(k, "wrong", "size=%u count=%u with repeated sources", size, cnt);
	} else {
		ar_ro(one);
		of_add_to_multiple_symbols(tab, one, cnt, size);
		for (uint32_t x = 0; x < cnt; x++) { for (uint32_t i = 0; i < size; i++) exp[i] = (uint8_t)(b0[x][i] ^ ((mult[x] & 1) ? one0[i] : 0)); if (memcmp(buf[x], exp, size)) { bad(k, "wrong", "size=%u count=%u: destination %u appears %u time(s) in the table", size, cnt, x, mult[x]); break; } }
	}
	for (uint32_t j = 0; j < cnt; j++) { if (ar_check(buf[j])) bad(k, "oob", "operand %u damaged", j); ar_free(buf[j]); free(b0[j]); }
	if (ar_check(one)) bad(k, "oob", "single operand damaged"); ar_free(one); free(one0); free(exp);
	rep_count("kernel_calls", 1); rep_count("calls_with_repeated_operands", 1);
	rep_case_done(1, 0, 1);
}

/* operand count times symbol size on and next to 2^32 (the operands alias four buffers: 65536 x 64 KiB is 4 GiB of XOR work but
 * 256 KiB of memory). An even number of copies of the same buffer cancels, so the expected result is computed from the parity. */
static void wrap_case(int k, uint32_t cnt, uint32_t size, rng_t *r)
{
	if (!rep_case("kernel=%s size=%u count=%u (count*size vs 2^32) aliased operands", kname[k], size, cnt)) return;
	uint8_t *buf[4], *one = ar_alloc(size, 0, AR_KERNEL, 0), *one0 = malloc(size + 1), *exp = malloc(size + 1);
	for (int q = 0; q < 4; q++) { buf[q] = ar_alloc(size, (unsigned)q, AR_KERNEL, q + 1); fill(r, buf[q], size, 0); }
	fill(r, one, size, 0); memcpy(one0, one, size);
	void **tab = malloc((size_t)cnt * sizeof(void *)); uint32_t par[4] = { 0, 0, 0, 0 };
	for (uint32_t j = 0; j < cnt; j++) { unsigned q = (j * 7 + j / 5 + (j >> 9)) & 3; tab[j] = buf[q]; par[q]++; }      /* irregular: a buffer appears 0..4 times within a group of 8 */
	if (k == K_FROM) {
		for (int q = 0; q < 4; q++) ar_ro(buf[q]);
		of_add_from_multiple_symbols(one, (const void **)tab, cnt, size);
		memcpy(exp, one0, size);
		for (int q = 0; q < 4; q++) if (par[q] & 1) for (uint32_t i = 0; i < size; i++) exp[i] ^= buf[q][i];
		if (memcmp(one, exp, size)) bad(k, "wrong", "size=%u count=%u (count*size = %llu)", size, cnt, (unsigned long long)size * cnt);
	} else {
		/* every destination gets `one` XORed in as many times as it appears in the table */
		uint8_t *b0[4]; for (int q = 0; q < 4; q++) { b0[q] = malloc(size + 1); memcpy(b0[q], buf[q], size); }
		ar_ro(one);
		of_add_to_multiple_symbols(tab, one, cnt, size);
		for (int q = 0; q < 4; q++) { for (uint32_t i = 0; i < size; i++) exp[i] = (uint8_t)(b0[q][i] ^ ((par[q] & 1) ? one0[i] : 0)); if (memcmp(buf[q], exp, size)) { bad(k, "wrong", "size=%u count=%u operand %d", size, cnt, q); break; } }
		for (int q = 0; q < 4; q++) free(b0[q]);
	}
	for (int q = 0; q < 4; q++) { if (ar_check(buf[q])) bad(k, "oob", "operand buffer %d damaged", q); ar_free(buf[q]); }
	if (ar_check(one)) bad(k, "oob", "canary of the single operand"); ar_free(one);
	free(tab); free(one0); free(exp);
	rep_count("kernel_calls", 1);
	rep_case_done(1, 0, 1);
}

/* operands in different regions of the address space whose addresses are congruent modulo 2^32 up to less than the symbol size:
 * a distance or overlap test done in 32 bits takes them for overlapping. Needs two mappings exactly 4 GiB (8, 12 GiB) apart;
 * when the address space does not allow it the case is skipped and counted. */
static void far_apart_case(int k, uint32_t size, uint64_t gib, int d, rng_t *r)
{
	if (!rep_case("kernel=%s size=%u operands %llu GiB %+d bytes apart", kname[k], size, (unsigned long long)gib, d)) return;
	size_t span = 1u << 20; uint8_t *lo = MAP_FAILED, *hi = MAP_FAILED;
	for (uintptr_t base = 0x100000000000ULL; base < 0x100000000000ULL + (16ULL << 32) && hi == MAP_FAILED; base += 1ULL << 32) {
		lo = mmap((void *)base, span, PROT_READ | PROT_WRITE, MAP_PRIVATE | MAP_ANONYMOUS | MAP_FIXED_NOREPLACE, -1, 0);
		if (lo == MAP_FAILED) continue;
		hi = mmap((void *)(base + (gib << 32)), span, PROT_READ | PROT_WRITE, MAP_PRIVATE | MAP_ANONYMOUS | MAP_FIXED_NOREPLACE, -1, 0);
		if (hi == MAP_FAILED) { munmap(lo, span); lo = MAP_FAILED; }
	}
	if (hi == MAP_FAILED) { rep_count("address_layout_unavailable_far_apart_case_skipped", 1); rep_case_done(0, 0, 1); return; }
	uint8_t *a = lo + 4096, *b = hi + 4096 + d, *a0 = malloc(size + 1), *exp = malloc(size + 1);
	fill(r, a, size, 0); fill(r, b, size, 0); memcpy(a0, a, size);
	void *tab[1] = { b };
	for (uint32_t i = 0; i < size; i++) exp[i] = a0[i] ^ b[i];
	if (k == K_ADD1) of_add_to_symbol(a, b, size);
	else if (k == K_FROM) of_add_from_multiple_symbols(a, (const void **)tab, 1, size);
	else { /* destination far away, source here */ memcpy(a0, b, size); for (uint32_t i = 0; i < size; i++) exp[i] = a0[i] ^ a[i]; of_add_to_multiple_symbols(tab, a, 1, size); }
	if (memcmp(k == K_TO ? b : a, exp, size)) bad(k, "wrong", "size=%u operands %llu GiB %+d bytes apart", size, (unsigned long long)gib, d);
	munmap(lo, span); munmap(hi, span); free(a0); free(exp);
	rep_count("kernel_calls", 1); rep_count("far_apart_operand_pairs", 1);
	rep_case_done(1, 0, 1);
}

int p_c13(void)
{
	long unit = 0;
	oracle_tables();
	tu_rs28_init();
	ar_init();
	uint32_t maxsz = g_run.thorough ? 1100 : 130;
	static const uint32_t big[] = { 4096, 65537 };
	/* XOR kernels: units = (kernel, size block of 10) */
	for (int k = K_ADD1; k <= K_TO; k++)
		for (uint32_t s0 = 0; s0 <= maxsz; s0 += 10, unit++) {
			rep_unit(unit);
			if (!rep_unit_mine(unit)) continue;
			rng_t r = rng_make(g_run.seed, 1300 + (uint64_t)k, s0);
			for (uint32_t size = s0; size < s0 + 10 && size <= maxsz; size++)
				for (uint32_t cnt = (k == K_ADD1 ? 1 : 0); cnt <= (k == K_ADD1 ? 1u : 20u); cnt++)
					for (unsigned dal = 0; dal < 8; dal++) {
						/* beyond 4 unroll periods of every branch, sample the alignments in thorough */
						if (size > 260 && ((size + cnt + dal) % 4)) continue;
						xor_case(k, size, cnt, dal, &r, 0);
						xor_case(k, size, cnt, dal, &r, 1);
					}
		}
	/* large symbols: code that switches strategy above a size threshold (around 2^12, 2^16, 2^17) with every residue modulo 8 */
	{
		static const uint32_t bases[] = { 4096, 32768, 65536, 131072 };
		for (int k = K_ADD1; k <= K_TO; k++) for (unsigned bi = 0; bi < 4; bi++, unit++) {
			rep_unit(unit);
			if (!rep_unit_mine(unit)) continue;
			if (!g_run.thorough && bi == 3 && k != K_ADD1) continue;
			rng_t r = rng_make(g_run.seed, 1340 + (uint64_t)k, bi);
			for (int d = -9; d <= 17; d++) {
				uint32_t size = (uint32_t)((int)bases[bi] + d);
				uint32_t cnt = k == K_ADD1 ? 1 : (d & 1) ? 8 + rng_below(&r, 5) : 1 + rng_below(&r, 7);
				xor_case(k, size, cnt, (unsigned)(d & 7), &r, d & 1);
			}
		}
	}
	if (g_run.thorough)
		for (int k = K_ADD1; k <= K_TO; k++, unit++) {
			rep_unit(unit);
			if (!rep_unit_mine(unit)) continue;
			rng_t r = rng_make(g_run.seed, 1310 + (uint64_t)k, 1);
			for (unsigned b = 0; b < 2; b++) for (uint32_t cnt = (k == K_ADD1 ? 1 : 0); cnt <= (k == K_ADD1 ? 1u : 20u); cnt += 3)
				for (unsigned dal = 0; dal < 8; dal += 3) { xor_case(k, big[b], cnt, dal, &r, 0); xor_case(k, big[b], cnt, dal, &r, 1); }
		}
	{
		static const uint32_t wp[][2] = { {65536, 65536}, {65535, 65536}, {65536, 65535}, {4096, 1048576}, {131072, 32768}, {65537, 65536} };
		for (int k = K_FROM; k <= K_TO; k++) for (unsigned w = 0; w < 6; w++, unit++) {
			rep_unit(unit);
			if (!rep_unit_mine(unit)) continue;
			if (!g_run.thorough && (w == 2 || w == 5 || (k == K_TO && w != 0))) continue;
			rng_t r = rng_make(g_run.seed, 1345 + (uint64_t)k, w);
			wrap_case(k, wp[w][0], wp[w][1], &r);
		}
	}
	for (int k = K_FROM; k <= K_TO; k++, unit++) {
		rep_unit(unit);
		if (!rep_unit_mine(unit)) continue;
		rng_t r = rng_make(g_run.seed, 1346 + (uint64_t)k, 0);
		static const uint32_t as[] = { 1, 7, 8, 9, 16, 21, 64, 100 };
		for (uint32_t cnt = 2; cnt <= 24; cnt++) for (unsigned si = 0; si < 8; si++) for (int rep = 0; rep < (g_run.thorough ? 12 : 3); rep++) alias_case(k, as[si], cnt, &r);
	}
	rep_unit(unit);
	if (rep_unit_mine(unit)) {
		rng_t r = rng_make(g_run.seed, 1347, 0);
		static const uint32_t fs[] = { 2, 13, 64, 256, 1021, 4096 }; static const int ds[] = { 0, 1, -1, 7, 64 };
		for (int k = K_ADD1; k <= K_TO; k++) for (unsigned si = 0; si < 6; si++) for (unsigned di = 0; di < 5; di++) {
			if (!g_run.thorough && (si + di + (unsigned)k) % 2) continue;
			far_apart_case(k, fs[si], 1 + (si + di) % 3, ds[di], &r);
		}
	}
	unit++;
	/* multiply-accumulate kernels */
	for (int k = K_RS28; k <= K_M4C; k++)
		for (uint32_t s0 = 0; s0 <= maxsz; s0 += 10, unit++) {
			rep_unit(unit);
			if (!rep_unit_mine(unit)) continue;
			rng_t r = rng_make(g_run.seed, 1320 + (uint64_t)k, s0);
			for (uint32_t size = s0; size < s0 + 10 && size <= maxsz; size++)
				for (unsigned dal = 0; dal < 8; dal++) for (unsigned sal = 0; sal < 8; sal++) {
					if (size > 130 && ((size + dal * 3 + sal) % 8)) continue;
					mul_case(k, size, dal, sal, &r, (int)((size + dal + sal) & 1));
				}
		}
	for (int k = K_RS28; k <= K_M4C; k++, unit++) {
		rep_unit(unit);
		if (!rep_unit_mine(unit)) continue;
		rng_t r = rng_make(g_run.seed, 1350 + (uint64_t)k, 1);
		static const uint32_t bases[] = { 4096, 65536 };
		for (unsigned bi = 0; bi < 2; bi++) for (int d = -3; d <= 17; d += (g_run.thorough ? 1 : 2)) mul_case(k, (uint32_t)((int)bases[bi] + d), (unsigned)(d & 7), (unsigned)((d * 3) & 7), &r, d & 1);
	}
	if (g_run.thorough)
		for (int k = K_RS28; k <= K_M4C; k++, unit++) {
			rep_unit(unit);
			if (!rep_unit_mine(unit)) continue;
			rng_t r = rng_make(g_run.seed, 1330 + (uint64_t)k, 1);
			for (unsigned b = 0; b < 2; b++) for (unsigned dal = 0; dal < 8; dal += 3) for (unsigned sal = 0; sal < 8; sal += 2) mul_case(k, big[b], dal, sal, &r, (int)((dal + sal / 2) & 1));
		}
	rep_count("bytes_of_application_memory_under_protection", ar_bytes_protected());
	return 0;
}
