/* LDPC-Staircase parity-check matrix of RFC 5170, transcribed from the RFC text (section 5.7 PRNG, 6.2 left_matrix_init
 * and the staircase), with its own Park-Miller implementation. Shares no code with the library. */
#ifndef OFH_RFC5170_H
#define OFH_RFC5170_H
#include <stdint.h>
typedef struct {
	unsigned k, r, N1; uint32_t seed;
	unsigned *row_len;       /* number of source columns in row i */
	unsigned **row_cols;     /* sorted source column indices (0..k-1) of row i */
	int extra_added;         /* extra entries were added to make row degree >= 2 */
	int all_source_cols_even;/* every source column has even weight */
} rfc_mat_t;
rfc_mat_t *rfc5170_build(unsigned k, unsigned r, unsigned N1, uint32_t seed);
void rfc5170_free(rfc_mat_t *m);
uint32_t rfc_pmms_next(uint32_t *state);                 /* advance, return new state */
uint32_t rfc_pmms_rand(uint32_t *state, uint32_t maxv);  /* RFC 5170 pmms_rand */
int selftest_rfc5170(void);
#endif
