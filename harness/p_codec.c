/* Workload generator for the codec-session properties C01 C02 C03 C04 C07 C08 C10 C11 (DESIGN.md §5).
 * One generator, property-specific profiles. A work unit = (configuration, payload, history class);
 * a case = one complete session history, executed by session.c under the monitors of the property. */
#include "session.h"
#include "arena.h"
#include "ledger.h"
#include "of_openfec_api.h"

typedef struct {
	unsigned mon;
	int codecs;          /* bit0 rs28, bit1 rs2m8, bit2 rs2m4, bit3 ldpc */
	int apis;            /* bit0 stream, bit1 set_available */
	int finish;          /* 0 never, 1 always, 2 both */
	int cb;              /* 0 never, 1 always some callback mode, 2 mixed */
	int dups;            /* duplicates allowed */
	int need_oracle;
	int roles;           /* vary the role of the instance */
	int stops;           /* generate early-release histories (truncated, unconfigured, configured) */
	int lens;            /* 0: small fixed L set, 1: the full length list with alignments (C07) */
	unsigned exh_n_quick, exh_n_thorough;   /* enumerate all 2^n subsets up to this n */
	unsigned per_mask;   /* histories per subset */
	unsigned samples_quick, samples_thorough;   /* sampled histories per large configuration */
} profile_t;

static profile_t g_pf;
static const uint32_t LENS_SMALL[] = { 1, 4, 7, 16, 33, 3, 8, 13, 21, 64, 100, 30, 2, 1025, 5, 1500 };
static const uint32_t LENS_FULL[] = { 1, 2, 3, 4, 5, 7, 8, 9, 15, 16, 17, 31, 32, 33, 63, 64, 65, 127, 128, 1023, 1024, 1025, 1500 };

static void profile(const char *p)
{
	profile_t f; memset(&f, 0, sizeof f);
	f.codecs = 15; f.apis = 3; f.finish = 2; f.cb = 2; f.dups = 1; f.per_mask = 1;
	f.exh_n_quick = 12; f.exh_n_thorough = 15; f.samples_quick = 500; f.samples_thorough = 5000;
	if (!strcmp(p, "C01")) { f.mon = MON_C01; }
	else if (!strcmp(p, "C02")) { f.mon = MON_C02 | MON_C01; f.codecs = 7; f.cb = 2; f.exh_n_quick = 11; f.exh_n_thorough = 15; f.per_mask = 2; }
	else if (!strcmp(p, "C03")) { f.mon = MON_C03; f.codecs = 8; f.finish = 1; f.need_oracle = 1; f.cb = 0; f.per_mask = 2; f.exh_n_quick = 13; f.exh_n_thorough = 16; f.samples_quick = 800; f.samples_thorough = 8000; }
	else if (!strcmp(p, "C04")) { f.mon = MON_C04; f.codecs = 8; f.apis = 1; f.finish = 0; f.need_oracle = 1; f.cb = 2; f.per_mask = 2; f.exh_n_quick = 12; f.exh_n_thorough = 15; }
	else if (!strcmp(p, "C07")) { f.mon = MON_C07; f.roles = 1; f.stops = 1; f.lens = 1; f.exh_n_quick = 8; f.exh_n_thorough = 11; f.samples_quick = 120; f.samples_thorough = 1500; }
	else if (!strcmp(p, "C08")) { f.mon = MON_C08; f.roles = 1; f.stops = 1; f.exh_n_quick = 11; f.exh_n_thorough = 13; f.per_mask = 2; }
	else if (!strcmp(p, "C10")) { f.mon = MON_C10; f.need_oracle = 1; f.per_mask = 2; }
	else if (!strcmp(p, "C11")) { f.mon = MON_C11 | MON_C01; f.cb = 1; f.need_oracle = 1; f.per_mask = 2; }
	else rep_fatal("p_codec: no profile for %s", p);
	g_pf = f;
}

/* ---- configuration lists ---- */
typedef struct { cfg_t c; int large; uint32_t Lforce; int all_by_table; } cfgent_t;
static cfgent_t *g_cfgs; static size_t g_ncfg, g_capcfg;
static void add_cfg(int codec, int m, uint32_t k, uint32_t r, uint32_t N1, uint32_t seed, int large)
{
	for (size_t i = 0; i < g_ncfg; i++) { cfg_t *c = &g_cfgs[i].c; if (c->codec == codec && c->m == m && c->k == k && c->r == r && c->N1 == N1 && c->seed == seed) return; }
	if (g_ncfg == g_capcfg) { g_capcfg = g_capcfg ? g_capcfg * 2 : 256; g_cfgs = realloc(g_cfgs, g_capcfg * sizeof *g_cfgs); }
	cfgent_t *e = &g_cfgs[g_ncfg++]; memset(e, 0, sizeof *e);
	e->c.codec = codec; e->c.m = m; e->c.k = k; e->c.r = r; e->c.N1 = N1; e->c.seed = seed; e->large = large;
}

static void add_cfg_L(int codec, int m, uint32_t k, uint32_t r, uint32_t L)
{	/* a Reed-Solomon configuration with a given symbol length (k * L on a buffer-size boundary) */
	size_t before = g_ncfg; add_cfg(codec, m, k, r, L, 0, 1);           /* N1 slot carries L so that the same (k, r) with another L is a new entry */
	if (g_ncfg > before) { g_cfgs[g_ncfg - 1].c.N1 = 0; g_cfgs[g_ncfg - 1].Lforce = L; }
}
static int g_force_api = -1;

static void build_cfg_list(void)
{
	int T = g_run.thorough; unsigned exh = T ? g_pf.exh_n_thorough : g_pf.exh_n_quick;
	rng_t r = rng_make(g_run.seed, 4242, 1);
	static const uint32_t rs_small[][2] = { {1,1},{1,2},{2,1},{2,2},{1,4},{3,1},{3,4},{4,4},{5,3},{2,7},{7,2},{7,5},{6,6},{10,4},{4,10},{9,6},{3,12},{12,3},{8,8},{14,1},{1,14},{10,6} };
	static const uint32_t rs_large[][2] = { {32,16},{100,50},{127,128},{200,55},{254,1},{1,254},{20,5},{64,64},{17,3},{128,127},{250,5} };
	for (int rsv = 0; rsv < 2; rsv++) {
		if (!(g_pf.codecs & (1 << rsv))) continue;
		int codec = rsv == 0 ? 1 : 2, m = rsv == 0 ? 0 : 8;
		for (unsigned i = 0; i < sizeof rs_small / sizeof rs_small[0]; i++) if (rs_small[i][0] + rs_small[i][1] <= exh) add_cfg(codec, m, rs_small[i][0], rs_small[i][1], 0, 0, 0);
		for (unsigned i = 0; i < sizeof rs_small / sizeof rs_small[0]; i++) if (rs_small[i][0] + rs_small[i][1] > exh) add_cfg(codec, m, rs_small[i][0], rs_small[i][1], 0, 0, 1);
		for (unsigned i = 0; i < sizeof rs_large / sizeof rs_large[0]; i++) add_cfg(codec, m, rs_large[i][0], rs_large[i][1], 0, 0, 1);
		/* k * L on and next to sizes where a decoder may switch between a fixed and an allocated work buffer (255*16, 4096, ...) */
		{ static const uint32_t kl[][2] = { {16,255},{8,510},{240,17},{20,204},{16,256},{15,272},{8,255},{4,1020},{128,510},{17,240},{32,128},{2,2040},{1,4080} };
		  for (unsigned i = 0; i < sizeof kl / sizeof kl[0]; i++) add_cfg_L(codec, m, kl[i][0], kl[i][0] > 200 ? 10 : 4 + (i & 3), kl[i][1]); }
		if (T) for (int j = 0; j < 40; j++) { uint32_t k = 1 + rng_below(&r, 254); uint32_t rr = 1 + rng_below(&r, 255 - k); add_cfg(codec, m, k, rr, 0, 0, 1); }
	}
	if ((g_pf.codecs & 2) && (!strcmp(g_run.prop, "C10") || !strcmp(g_run.prop, "C02") || !strcmp(g_run.prop, "C01"))) {
		/* RS GF(2^m) accepts k = 1 with any n (known finding of C09; the suite relies on it): n on the 16-bit boundary, every symbol
		 * handed over in one table */
		add_cfg(2, 8, 1, 65535, 0, 0, 1); g_cfgs[g_ncfg - 1].all_by_table = 1;
		add_cfg(2, 4, 1, 65535, 0, 0, 1); g_cfgs[g_ncfg - 1].all_by_table = 1;
		if (T) { add_cfg(2, 8, 1, 131071, 0, 0, 1); g_cfgs[g_ncfg - 1].all_by_table = 1; add_cfg(2, 8, 1, 65534, 0, 0, 1); g_cfgs[g_ncfg - 1].all_by_table = 1; }
	}
	if (g_pf.codecs & 4) {
		/* GF(2^4): every 1<=k<n<=15 in thorough (and for C02 always up to the exhaustive bound) */
		for (uint32_t n = 2; n <= 15; n++) for (uint32_t k = 1; k < n; k++) {
			int small = n <= exh;
			if (small) { if (T || !strcmp(g_run.prop, "C02") || ((k * 7 + n) % 3 == 0)) add_cfg(2, 4, k, n - k, 0, 0, 0); }
			else if (T || (k + n) % 5 == 0) add_cfg(2, 4, k, n - k, 0, 0, 1);
		}
	}
	if (g_pf.codecs & 8) {
		static const uint32_t seeds[] = { 1, 2147483646u, 16807, 2, 3, 5, 7, 11 };
		uint32_t kmax = exh > 3 ? exh - 3 : 1;
		for (uint32_t k = 1; k <= kmax; k++) for (uint32_t rr = 3; k + rr <= exh; rr++) {
			uint32_t n = k + rr;
			for (uint32_t N1 = 3; N1 <= rr && N1 <= 7; N1++) {
				/* the code is a different matrix for every (k,r,N1,seed): small n is cheap, so take several seeds there;
				 * quick thins the grid only for the two largest exhaustive sizes */
				if (!T && n + 1 >= exh && ((k * 31 + rr * 7 + N1) % 4) && !(N1 == 3 && rr <= 4)) continue;
				unsigned nseeds = n <= 8 ? 4 : n <= 10 ? 2 : 1; if (T) nseeds *= 2;
				for (unsigned si = 0; si < nseeds; si++) add_cfg(3, 0, k, rr, N1, seeds[(k + rr + N1 + si) % 8], 0);
				if (T) add_cfg(3, 0, k, rr, N1, 1 + (uint32_t)(rng_u64(&r) % 2147483646u), 0);
			}
		}
		/* low code rates with even N1: the self-injected "null last repair symbol" and the extra-entry logic live here */
		static const uint32_t lrk[] = { 2, 3, 5, 8, 10, 12 };
		for (unsigned i = 0; i < sizeof lrk / sizeof lrk[0]; i++) for (unsigned j = 0; j < 4; j++) {
			uint32_t k = lrk[i], rr = j == 0 ? 2 * k : j == 1 ? 2 * k + 1 : j == 2 ? 3 * k : 4 * k;
			if (rr < 4) rr = 4;
			for (uint32_t N1 = 4; N1 <= 6 && N1 <= rr; N1 += 2)
				for (unsigned si = 0; si < (T ? 6u : 3u); si++) add_cfg(3, 0, k, rr, N1, seeds[(i + j + si) % 8], k + rr > exh);
		}
		/* high left degrees: many equations reach degree 1 at once (growth of the IT decoder's degree-1 table, wide ML rows) */
		static const uint32_t hn[][3] = { {3,12,9}, {4,12,12}, {6,10,10}, {8,16,12}, {5,20,16}, {10,40,32}, {2,9,9}, {20,30,11}, {7,64,64} };
		for (unsigned i = 0; i < sizeof hn / sizeof hn[0]; i++)
			for (unsigned si = 0; si < (T ? 4u : 2u); si++) add_cfg(3, 0, hn[i][0], hn[i][1], hn[i][2], seeds[(i + si) % 8], hn[i][0] + hn[i][1] > exh);
		static const uint32_t lk[] = { 16, 20, 33, 64, 100, 300, 1000 };    /* 300 and 1000: beyond 8-bit counters */
		for (unsigned i = 0; i < sizeof lk / sizeof lk[0]; i++) {
			uint32_t k = lk[i];
			if (k > 300 && !T && strcmp(g_run.prop, "C07") && strcmp(g_run.prop, "C01") && strcmp(g_run.prop, "C03")) continue;
			uint32_t rs_[3] = { k / 2 < 3 ? 3 : k / 2, k, 2 * k };
			for (int j = 0; j < 3; j++) for (uint32_t N1 = 3; N1 <= 10 && N1 <= rs_[j]; N1 += (N1 < 7 ? 1 : 3)) {
				if (!T && (i * 5 + (unsigned)j * 3 + N1) % 3) continue;
				add_cfg(3, 0, k, rs_[j], N1, seeds[(i + N1) % 3], 1);
			}
		}
		if (T) { add_cfg(3, 0, 5000, 2500, 5, 1, 1); add_cfg(3, 0, 5000, 5000, 4, 7, 1); }
		if (!strcmp(g_run.prop, "C03")) { add_cfg(3, 0, 1200, 9000, 4, 16807, 1); add_cfg(3, 0, 12000, 12000, 3, 1, 1); }
		if (!strcmp(g_run.prop, "C04")) {
			/* staircases longer than 2^12 (and, in thorough, 2^14) equations: the depth of one peeling chain is bounded by n-k only */
			add_cfg(3, 0, 6000, 6000, 3, 1, 1); add_cfg(3, 0, 1200, 9000, 4, 16807, 1);
			if (T) { add_cfg(3, 0, 9000, 6000, 5, 2, 1); add_cfg(3, 0, 2000, 20000, 3, 3, 1); add_cfg(3, 0, 20000, 10000, 3, 1, 1); add_cfg(3, 0, 25000, 25000, 3, 5, 1); /* n at the codec limit: tens of thousands of nested calls */ }
		}
		/* n-k on and next to every power of two up to 2^15 (2^j - 1 covers the Mersenne numbers): strides, masks, table sizes and
		 * counters that depend on the number of repair symbols change behaviour there */
		for (unsigned j = 5; j <= 15; j++) for (int d = -1; d <= 1; d++) {
			uint32_t rr = (uint32_t)((1 << j) + d), k = j >= 10 ? 200 : 40;
			if (!T && j >= 8 && j <= 12 && d == 1) continue;
			add_cfg(3, 0, k, rr, (j & 1) ? 5 : 3, seeds[(j + (unsigned)(d + 1)) % 8], 1);
		}
		/* equations with 31..33 and 63..65 terms (N1*k/(n-k) sources plus the previous repair symbol): batch sizes of 32 / 64 in the encoder
		 * or the decoder's per-equation loops */
		{ static const uint32_t kk[] = { 60, 62, 63, 64, 65, 66, 126, 127, 128, 130 };
		  for (unsigned i = 0; i < sizeof kk / sizeof kk[0]; i++) { if (!T && (i & 1) && kk[i] > 66) continue; add_cfg(3, 0, kk[i], 8, 4, seeds[i % 8], 1); if (T || i % 3 == 0) add_cfg(3, 0, kk[i], 6, 3, seeds[(i + 1) % 8], 1); } }
		/* extra-entry counts of exactly 256 and 512 (2(n-k) - N1*k at low rates): a count or flag narrowed to 8 bits reads zero there */
		add_cfg(3, 0, 10, 148, 4, 1, 1); add_cfg(3, 0, 64, 256, 4, 16807, 1); add_cfg(3, 0, 30, 218, 6, 2, 1); add_cfg(3, 0, 10, 276, 4, 3, 1);
		if (!strcmp(g_run.prop, "C07") || !strcmp(g_run.prop, "C08") || !strcmp(g_run.prop, "C01")) {
			/* parameter limits: the largest block the library itself advertises (OF_CTRL_GET_MAX_N), whatever that is */
			{
				of_session_t *ls = NULL; UINT32 mn = 0;
				if (of_create_codec_instance(&ls, OF_CODEC_LDPC_STAIRCASE_STABLE, OF_DECODER, 0) == OF_STATUS_OK && ls) {
					if (of_get_control_parameter(ls, OF_CTRL_GET_MAX_N, &mn, sizeof mn) != OF_STATUS_OK) mn = 0;
					of_release_codec_instance(ls);
				}
				if (mn > 50000 && mn <= 400000) { add_cfg(3, 0, mn - 3, 3, 3, 1, 1); add_cfg(3, 0, mn - 4, 4, 3, 2, 1); }
			}
			add_cfg(3, 0, 49997, 3, 3, 1, 1);
			if (T) { add_cfg(3, 0, 25000, 25000, 4, 1, 1); add_cfg(3, 0, 3, 49997, 3, 1, 1); }
		}
	}
}

/* ---- histories ---- */
static uint32_t *g_sub; static size_t g_capsub;
static void sub_reserve(size_t n) { if (n > g_capsub) { g_capsub = n * 2 + 64; g_sub = realloc(g_sub, g_capsub * sizeof *g_sub); } }

/* order codes: 0 ESI order, 1 reverse, 2 repair first, 3 random permutation, 4 random permutation with duplicates */
static uint32_t make_sequence(const uint8_t *inset, uint32_t n, uint32_t k, int order, rng_t *r)
{
	uint32_t m = 0;
	sub_reserve((size_t)n * 2 + 8);
	if (order == 2) { for (uint32_t e = k; e < n; e++) if (inset[e]) g_sub[m++] = e; for (uint32_t e = 0; e < k; e++) if (inset[e]) g_sub[m++] = e; }
	else for (uint32_t e = 0; e < n; e++) if (inset[e]) g_sub[m++] = e;
	if (order == 1) for (uint32_t i = 0; i < m / 2; i++) { uint32_t t = g_sub[i]; g_sub[i] = g_sub[m - 1 - i]; g_sub[m - 1 - i] = t; }
	if (order >= 3) for (uint32_t i = m; i > 1; i--) { uint32_t j = rng_below(r, i); uint32_t t = g_sub[i - 1]; g_sub[i - 1] = g_sub[j]; g_sub[j] = t; }
	if (order == 4 && m) {
		/* inject duplicates of symbols already submitted (p = 0.2 per position) */
		uint32_t *out = malloc(((size_t)m * 2 + 4) * sizeof *out), o = 0;
		for (uint32_t i = 0; i < m; i++) { out[o++] = g_sub[i]; if (rng_below(r, 5) == 0) out[o++] = g_sub[rng_below(r, i + 1)]; }
		memcpy(g_sub, out, o * sizeof *out); free(out); m = o;
	}
	return m;
}

static int pick(int allowed_bits, uint64_t h)
{	/* choose one set bit of allowed_bits */
	int cnt = __builtin_popcount((unsigned)allowed_bits); if (!cnt) return 0;
	int idx = (int)(h % (unsigned)cnt);
	for (int b = 0; b < 8; b++) if (allowed_bits >> b & 1) { if (!idx--) return b; }
	return 0;
}

static void run_one(const block_t *b, const uint8_t *inset, uint64_t maskdesc, int have_mask, uint64_t h, rng_t *r, int unique)
{
	const cfg_t *c = &b->c; uint32_t n = b->n, k = c->k;
	hist_t hi; memset(&hi, 0, sizeof hi);
	hi.api = g_force_api >= 0 ? g_force_api : pick(g_pf.apis, h >> 3);
	hi.finish = g_pf.finish == 2 ? (int)((h >> 7) % 3 != 0) : g_pf.finish;
	if (g_pf.cb == 1) hi.cbmode = 1 + (int)((h >> 11) % 5); else if (g_pf.cb == 2) hi.cbmode = ((h >> 11) % 3 == 0) ? 1 + (int)((h >> 17) % 5) : 0;
	if (g_pf.roles) hi.roles = (int)((h >> 23) % 4 == 0 ? 1 + ((h >> 29) % 3) : 0);
	else hi.roles = (int)((h >> 23) % 16 == 0 ? 1 + ((h >> 29) % 3) : 0);      /* an encoder+decoder instance now and then */
	hi.dupcopy = 1;
	hi.cb_early = hi.cbmode && (h >> 47) % 3 == 0;
	g_session_preprobe = (h >> 51) % 5 == 0;
	g_session_verbosity = (h >> 55) % 4 == 3 ? 2 : (h >> 55) % 4 == 2 ? 1 : 0;
	hi.reenter = hi.cbmode && (h >> 43) % 4 == 0;
	int order = hi.api == 1 ? 0 : (int)((h >> 31) % (g_pf.dups ? 5 : 4));
	hi.nsub = make_sequence(inset, n, k, order, r);
	if (g_pf.stops && hi.nsub && (h >> 37) % 4 == 0) hi.nsub = rng_below(r, hi.nsub + 1);   /* release mid-way */
	if (g_pf.stops && (h >> 41) % 23 == 0) hi.stop = 1 + (int)((h >> 47) & 1);
	hi.sub = g_sub;
	hi.snap_every = n <= 300 ? 1 : (int)((n + 49) / 50);
	char ms[40] = "";
	if (have_mask) snprintf(ms, sizeof ms, " mask=0x%llx", (unsigned long long)maskdesc);
	if (!rep_case("codec=%s k=%u r=%u L=%u N1=%u seed=%u api=%d finish=%d cb=%d roles=%d stop=%d order=%d nsub=%u%s",
		      codec_name(c), c->k, c->r, c->L, c->N1, c->seed, hi.api, hi.finish, hi.cbmode, hi.roles, hi.stop, order, hi.nsub, ms)) return;
	hres_t res;
	run_history(b, &hi, g_pf.mon, &res);
	g_session_preprobe = 0; g_session_verbosity = 0;
	int nontrivial;
	switch (g_run.prop[2]) {
	case '1': nontrivial = g_run.prop[1] == '0' ? (res.decoded_it + res.decoded_fin) > 0 : res.callbacks > 0; break;          /* C01 / C11 */
	case '2': nontrivial = (res.decoded_it + res.decoded_fin) > 0 || (res.n_received_distinct < (int)k && hi.finish); break; /* C02 */
	case '3': nontrivial = res.it_incomplete && res.oracle_solvable >= 0; break;                                              /* C03 */
	case '4': nontrivial = hi.nsub > 0; break;                                                                                  /* C04 */
	case '0': nontrivial = hi.finish || hi.nsub > 0; break;                                                                     /* C10 */
	default:  nontrivial = 1; break;                                                                                            /* C07 C08 */
	}
	if (n > 3000 && res.oracle_solvable >= 0) rep_count(res.oracle_solvable ? (res.it_incomplete ? "big_block_histories_solvable_by_elimination_only" : "big_block_histories_solvable_by_peeling") : "big_block_histories_unsolvable", 1);
	if (res.decoded_it) rep_sample("decoded-during-submission");
	if (res.decoded_fin) rep_sample("decoded-by-finish_decoding");
	if (res.it_incomplete && res.oracle_solvable == 1) rep_sample("gaussian-elimination-decides-solvable");
	if (res.it_incomplete && res.oracle_solvable == 0) rep_sample("unsolvable-pattern");
	if (hi.stop) rep_sample("early-release");
	if (res.callbacks) rep_sample("with-callbacks");
	rep_count("library_calls", res.lib_calls);
	if (hi.finish) rep_count(res.complete ? "finish_called_complete_after" : "finish_called_incomplete_after", 1);
	uint64_t key = hash64(hash64(hash64(h, maskdesc), (uint64_t)c->k << 32 | c->r), ((uint64_t)c->codec << 40) ^ ((uint64_t)c->L << 20) ^ c->N1 ^ ((uint64_t)c->seed << 8) ^ hash_bytes(g_sub, hi.nsub * sizeof *g_sub, hi.nsub));
	rep_case_done(nontrivial, key, unique && have_mask);
}

/* C04: a deep peeling chain inside ONE of_decode_with_new_symbol call. All sources but t (a member of equation 0) and a few
 * sources s_i whose first equation lies deep in the staircase are received; then t arrives and the decoder rebuilds the repair
 * symbols of equations 0 .. a_1-1 one after the other (recursion depth a_1); then the repair symbol of equation a_1 makes s_1
 * peelable, the chain runs on to a_2, and so on. The history ends there: the closure holds every source. */
static void run_chain(const block_t *b, uint64_t h, rng_t *r)
{
	const cfg_t *c = &b->c; uint32_t n = b->n, k = c->k; const gf2_sys_t *sy = b->sys;
	if (!sy || k < 4) return;
	sub_reserve((size_t)n * 2 + 8);
	uint32_t t = ~0u, cnt = 0;
	for (unsigned x = sy->eq_off[0]; x < sy->eq_off[1]; x++) if (sy->eq_sym[x] < k && rng_below(r, ++cnt) == 0) t = sy->eq_sym[x];
	if (t == ~0u) return;
	uint32_t nl = 1 + (uint32_t)(h % 3), lost[3], first[3], got = 0;
	for (int tries = 0; tries < 64 && got < nl; tries++) {
		/* of 128 candidates keep the one whose first equation is deepest */
		uint32_t best = ~0u, bestq = 0;
		for (int q = 0; q < 128; q++) {
			uint32_t s = rng_below(r, k); if (s == t) continue;
			uint32_t fe = ~0u; for (unsigned x = sy->sy_off[s]; x < sy->sy_off[s + 1]; x++) if (sy->sy_eq[x] < fe) fe = sy->sy_eq[x];
			if (fe == 0 || fe == ~0u) continue;
			if (best == ~0u || fe > bestq) { best = s; bestq = fe; }
		}
		if (best == ~0u) continue;
		int dup = 0; for (uint32_t i = 0; i < got; i++) if (lost[i] == best || first[i] == bestq) dup = 1;
		if (dup) continue;
		lost[got] = best; first[got] = bestq; got++;
	}
	if (!got) return;
	for (uint32_t i = 0; i < got; i++) for (uint32_t j = i + 1; j < got; j++) if (first[j] < first[i]) { uint32_t x = first[i]; first[i] = first[j]; first[j] = x; x = lost[i]; lost[i] = lost[j]; lost[j] = x; }
	uint32_t m = 0;
	for (uint32_t e = 0; e < k; e++) { int skip = e == t; for (uint32_t i = 0; i < got; i++) if (lost[i] == e) skip = 1; if (!skip) g_sub[m++] = e; }
	for (uint32_t i = m; i > 1; i--) { uint32_t j = rng_below(r, i); uint32_t x = g_sub[i - 1]; g_sub[i - 1] = g_sub[j]; g_sub[j] = x; }
	g_sub[m++] = t;
	for (uint32_t i = 0; i < got; i++) g_sub[m++] = k + first[i];
	hist_t hi; memset(&hi, 0, sizeof hi);
	hi.api = 0; hi.finish = (g_pf.mon & MON_C03) ? 1 : 0; hi.cbmode = (g_pf.mon & MON_C03) ? 0 : ((h >> 11) % 3 == 0 ? 1 + (int)((h >> 17) % 5) : 0);   /* C03: the chain, then of_finish_decoding */
	hi.nsub = m; hi.sub = g_sub; hi.snap_every = n <= 300 ? 1 : (int)((n + 9) / 10);
	if (!rep_case("chain codec=%s k=%u r=%u L=%u N1=%u seed=%u cb=%d t=%u lost=%u first-equations=%u..%u nsub=%u", codec_name(c), c->k, c->r, c->L, c->N1, c->seed, hi.cbmode, t, got, first[0], first[got - 1], m)) return;
	hres_t res;
	run_history(b, &hi, g_pf.mon, &res);
	rep_count("deep_chain_histories", 1);
	{ char nm[64]; uint32_t d = first[got - 1]; snprintf(nm, sizeof nm, "deep_chain_depth_%s", d >= 16384 ? "ge_16384" : d >= 4096 ? "ge_4096" : d >= 1024 ? "ge_1024" : d >= 256 ? "ge_256" : "lt_256"); rep_count(nm, 1); }
	if (res.decoded_it) rep_sample("deep-chain");
	rep_case_done(1, hash64(h, hash_bytes(g_sub, m * sizeof *g_sub, m)), 0);
}

int p_codec(void)
{
	g_prop = g_run.prop;
	profile(g_run.prop);
	ar_init();
	build_cfg_list();
	int T = g_run.thorough; unsigned exh = T ? g_pf.exh_n_thorough : g_pf.exh_n_quick;
	long unit = 0;
	const uint32_t *lens = g_pf.lens ? LENS_FULL : LENS_SMALL;
	unsigned nlens = g_pf.lens ? sizeof LENS_FULL / sizeof LENS_FULL[0] : sizeof LENS_SMALL / sizeof LENS_SMALL[0];
	for (size_t ci = 0; ci < g_ncfg; ci++) {
		cfgent_t *ce = &g_cfgs[ci];
		uint32_t n = ce->c.k + ce->c.r;
		/* sub-units: exhaustive configurations are split by subset range so that units stay short */
		unsigned splits = 1;
		if (!ce->large && n > 10) splits = 1u << (n - 10);
		unsigned lvariants = g_pf.lens ? (T ? nlens : 6) : 1;
		if (ce->large && n > 3000) lvariants = 1;
		for (unsigned lv = 0; lv < lvariants; lv++)
		for (unsigned sp = 0; sp < splits; sp++, unit++) {
			rep_unit(unit);
			if (!rep_unit_mine(unit)) continue;
			cfg_t c = ce->c;
			uint64_t uh = hash64(hash64(g_run.seed, ci), lv * 131 + sp);
			c.L = g_pf.lens ? lens[(lv * 7 + ci) % nlens] : lens[(ci + lv) % nlens];
			if (n > 3000) c.L = 4;
			if (ce->Lforce) c.L = ce->Lforce;
			if (c.codec == 2 && c.m == 4 && 0) c.L = c.L;
			rng_t r = rng_make(g_run.seed, 5000 + ci, lv * 4096 + sp);
			block_t b;
			/* the block-building encoder session is itself a monitored case (C07/C08: encoder histories) */
			int payload = (ci + lv) % 3 == 0 ? PAY_IDENTITY : (ci + lv) % 3 == 1 ? PAY_RANDOM : PAY_SPARSE;
			uint64_t nullmask = (g_pf.mon & (MON_C07 | MON_C08)) ? rng_u64(&r) & rng_u64(&r) : 0;
			if (!rep_case("encode codec=%s k=%u r=%u L=%u N1=%u seed=%u payload=%d nullslots=0x%llx", codec_name(&c), c.k, c.r, c.L, c.N1, c.seed, payload, (unsigned long long)nullmask)) {
				/* replay / resume filter: the block is still needed for the cases that follow */
				if (rep_is_resume_point()) continue;      /* the previous run died while building this very block: skip the unit */
				const char *sv = g_prop; g_prop = ""; int rc0 = block_build(&b, &c, payload, &r, 0, -1); g_prop = sv;
				if (rc0) { block_free(&b); continue; }
			} else {
				g_session_preprobe = (ci + lv + sp) % 3 == 0;
				int rc0 = block_build(&b, &c, payload, &r, nullmask, -1);
				g_session_preprobe = 0;
				rep_case_done(1, 0, 1);
				if (rc0 > 0) { rep_viol("encoder-rejects-valid-config", "codec=%s k=%u r=%u N1=%u seed=%u", codec_name(&c), c.k, c.r, c.N1, c.seed); block_free(&b); continue; }
				if (rc0 < 0) { block_free(&b); continue; }
			}
			if (g_pf.stops && sp == 0) {
				/* encoder released early: after create+configure only, and after j repair symbols */
				for (int j = 0; j < 3; j++) {
					int after = j == 0 ? 0 : (int)rng_below(&r, c.r + 1);
					if (!rep_case("encode-early-release codec=%s k=%u r=%u L=%u after=%d", codec_name(&c), c.k, c.r, c.L, after)) continue;
					block_t eb; rng_t r2 = rng_make(uh, 9, (uint64_t)j);
					block_build(&eb, &c, PAY_RANDOM, &r2, 0, after);
					block_free(&eb);
					rep_case_done(1, 0, 1);
				}
			}
			if (g_pf.need_oracle && (c.codec == 3)) { if (block_oracle(&b)) rep_fatal("oracle construction failed for %s k=%u r=%u", codec_name(&c), c.k, c.r); }
			uint8_t *inset = calloc(n + 1, 1);
			if (!ce->large) {
				uint64_t lo = (uint64_t)sp << (n > 10 ? 10 : n), hiu = n > 10 ? lo + 1024 : (1ULL << n);
				for (uint64_t mask = lo; mask < hiu; mask++) {
					for (uint32_t e = 0; e < n; e++) inset[e] = (uint8_t)(mask >> e & 1);
					for (unsigned v = 0; v < g_pf.per_mask; v++) run_one(&b, inset, mask, 1, hash64(hash64(uh, mask), v), &r, 1);
				}
				rep_count("subsets_enumerated_exhaustively", hiu - lo);
			} else {
				unsigned ns = T ? g_pf.samples_thorough : g_pf.samples_quick;
				if (n > 3000) ns = T ? 12 : (n > 20000 ? 3 : 6); else if (n > 600) ns = ns / 20 + 2; else if (n > 100) ns = ns / 4 + 2;
				for (unsigned s = 0; s < ns; s++) {
					uint64_t h = hash64(uh, 1000 + s);
					/* received count concentrated where decoding is decided; plus the structured extremes */
					uint32_t k = c.k; int cls = (int)(h % 16);
					if (n > 3000 && s == 0) cls = 3;
					if (ce->all_by_table) { cls = s == 0 ? 0 : cls; g_force_api = s == 0 ? 1 : -1; }      /* big blocks get few histories: one of them is 'every repair symbol and no source' */
					memset(inset, 0, n);
					uint32_t want;
					if (cls == 0) want = n; else if (cls == 1) want = 0;
					else if (cls == 2) { for (uint32_t e = 0; e < k; e++) inset[e] = 1; want = ~0u; }
					else if (cls == 3) { for (uint32_t e = k; e < n; e++) inset[e] = 1; want = ~0u; }
					else if (c.codec == 3 && (cls < 8 || (n > 3000 && s >= 1))) {
						/* two-rate reception: a fraction of the sources survives, and a number of repair symbols between one and three
						 * times the number of lost sources: at low code rates this is where recoverability is decided, a uniform
						 * subset of k(1+eps) symbols is almost all repair symbols there and never determines the block */
						uint32_t keepq = rng_below(&r, 4), lostn = 0;
						for (uint32_t e = 0; e < k; e++) { inset[e] = rng_below(&r, 4) < keepq; lostn += !inset[e]; }
						uint32_t mr = lostn + rng_below(&r, 2 * lostn + 2); if (mr > c.r) mr = c.r;
						sub_reserve((size_t)n * 2 + 8);
						for (uint32_t e = 0; e < c.r; e++) g_sub[e] = k + e;
						for (uint32_t i = 0; i < mr; i++) { uint32_t j = i + rng_below(&r, c.r - i); uint32_t t = g_sub[i]; g_sub[i] = g_sub[j]; g_sub[j] = t; inset[g_sub[i]] = 1; }
						want = ~0u;
					}
					else {
						int32_t lo_ = (int32_t)k - 2, hi_ = (int32_t)(k + (k + 4) / 5 + 2);
						if (c.codec == 3) hi_ = (int32_t)(k + (k * 3) / 20 + 4);
						if (lo_ < 0) lo_ = 0; if (hi_ > (int32_t)n) hi_ = (int32_t)n;
						want = (uint32_t)lo_ + rng_below(&r, (uint32_t)(hi_ - lo_ + 1));
					}
					if (want != ~0u) {
						/* random subset of size want (partial Fisher-Yates over an index array) */
						sub_reserve((size_t)n * 2 + 8);
						for (uint32_t e = 0; e < n; e++) g_sub[e] = e;
						for (uint32_t i = 0; i < want && i < n; i++) { uint32_t j = i + rng_below(&r, n - i); uint32_t t = g_sub[i]; g_sub[i] = g_sub[j]; g_sub[j] = t; inset[g_sub[i]] = 1; }
					}
					run_one(&b, inset, 0, 0, h, &r, 0);
					g_force_api = -1;
				}
			}
			if ((g_pf.mon & MON_C02) && (c.codec == 1 || (c.codec == 2 && c.m == 8)) && c.k >= 2 && !ce->Lforce) {
				/* MDS means every coefficient of the systematic generator's parity part is non-zero (one lost source must be recoverable
				 * from any one repair symbol). The generator is read off a block whose sources are byte unit vectors; every zero found
				 * (and two random positions) is turned into a real history: all sources but i, plus repair j. */
				cfg_t cu = c; cu.L = c.k; block_t bu; const char *sv = g_prop; g_prop = "";
				int rcu = block_build(&bu, &cu, PAY_BYTEUNIT, &r, 0, -1); g_prop = sv;
				if (rcu == 0) {
					unsigned found = 0;
					for (uint32_t pass = 0; pass < 2; pass++) for (uint32_t j = 0; j < c.r && found < 6; j++) for (uint32_t i = 0; i < c.k && found < 6; i++) {
						int zero = bu.sym[c.k + j][i] == 0;
						if (pass == 0 ? !zero : !(found < 2 && ((i * 131 + j * 31 + ci) % (c.k * c.r / 2 + 1)) == 0)) continue;
						if (zero) rep_count("zero_coefficients_found_in_a_generator", 1);
						memset(inset, 1, c.k); memset(inset + c.k, 0, c.r); inset[i] = 0; inset[c.k + j] = 1;
						run_one(&bu, inset, 0, 0, hash64(uh, 9000 + found), &r, 0);
						found++;
					}
					rep_count("generators_scanned_for_zero_coefficients", 1);
				}
				block_free(&bu);
			}
			if ((g_pf.mon & MON_C03) && ce->large && c.codec == 3 && n > 3000 && b.sys && b.g) {
				/* big blocks get few histories, so they are chosen with the oracles: two-rate receptions are drawn until three are found that
				 * determine the block (rank oracle) although peeling alone stalls - the ones where Gaussian elimination decides */
				unsigned found = 0; uint8_t *recv = calloc(n + 1, 1);
				for (int tries = 0; tries < (T ? 60 : 20) && found < (n > 20000 && !T ? 2u : 3u); tries++) {
					memset(inset, 0, n);
					uint32_t keepq = rng_below(&r, 4), lostn = 0;
					for (uint32_t e = 0; e < c.k; e++) { inset[e] = rng_below(&r, 4) < keepq; lostn += !inset[e]; }
					uint32_t mr = lostn + rng_below(&r, 2 * lostn + 2); if (mr > c.r) mr = c.r;
					sub_reserve((size_t)n * 2 + 8);
					for (uint32_t e = 0; e < c.r; e++) g_sub[e] = c.k + e;
					for (uint32_t i = 0; i < mr; i++) { uint32_t j = i + rng_below(&r, c.r - i); uint32_t t = g_sub[i]; g_sub[i] = g_sub[j]; g_sub[j] = t; inset[g_sub[i]] = 1; }
					memcpy(recv, inset, n); if (b.null_claim) recv[n - 1] = 1;
					gf2_peel_t *pl = gf2_peel_new(b.sys); int all = 1;
					for (uint32_t e = 0; e < n; e++) if (recv[e]) gf2_peel_add(pl, e);
					for (uint32_t e = 0; e < c.k; e++) if (!pl->known[e]) { all = 0; break; }
					gf2_peel_free(pl);
					if (all || !oracle_solvable(&b, recv)) continue;
					run_one(&b, inset, 0, 0, hash64(uh, 8000 + (uint64_t)tries), &r, 0);
					found++; rep_count("oracle_chosen_histories_where_elimination_decides", 1);
				}
				free(recv);
			}
			if ((g_pf.mon & (MON_C04 | MON_C03)) && ce->large && c.codec == 3 && ((g_pf.mon & MON_C04) || n > 3000))
				for (unsigned s = 0; s < (T ? 24u : 6u); s++) run_chain(&b, hash64(uh, 7000 + s), &r);
			free(inset);
			block_free(&b);
		}
	}
	rep_count("configurations", g_ncfg);
	rep_count("bytes_of_application_memory_under_protection", ar_bytes_protected());
	(void)exh;
	return 0;
}
