/* C12 — sessions are independent of each other (DESIGN.md §5 C12).
 * Differential replay: the observation log of every session script (per call: status, completion flag,
 * digest of every output buffer, classification + digest of each source-table entry, set of callback
 * events) must be the same when the script runs interleaved with other sessions in this process and
 * when it runs alone in a process that never called the library before (exec'ed child, one fork per script). */
#define _GNU_SOURCE
#include "session.h"
#include "arena.h"
#include "of_openfec_api.h"
#include <unistd.h>
#include <sys/wait.h>

#define MAXS 6
#define MAXN 64
typedef struct { int call, status, complete; uint64_t outh, tabh, cbh; } obs_t;
typedef struct {
	int kind;                 /* 0 encoder, 1 decoder */
	cfg_t c; uint32_t n; int api, finish, cbmode; uint32_t nsub; uint32_t sub[2 * MAXN];
	int both;                 /* decoder scripts: the instance is created as OF_ENCODER_AND_DECODER */
	unsigned verb;            /* verbosity given to of_create_codec_instance (the library keeps it in a process global) */
	/* runtime */
	int pc, nsteps, configured; of_session_t *ses; uint8_t *sym[MAXN]; void *tab[MAXN]; void *stab[MAXN];
	void *cbbuf[MAXN]; uint64_t cbacc; int cbn; int cbmode_rt;
	obs_t log[2 * MAXN + 16]; int nlog;
} script_t;

enum { CL_CREATE = 1, CL_SETP, CL_SETCB, CL_BUILD, CL_DECODE, CL_SETAVAIL, CL_FINISH, CL_RELEASE, CL_CTRL };
static const char *callname(int c) { static const char *n[] = { "?", "of_create_codec_instance", "of_set_fec_parameters", "of_set_callback_functions", "of_build_repair_symbol", "of_decode_with_new_symbol", "of_set_available_symbols", "of_finish_decoding", "of_release_codec_instance", "of_get_control_parameter" }; return n[c]; }

/* ---- deterministic script generation from a case seed ---- */
static void gen_cfg(rng_t *r, cfg_t *c)
{
	memset(c, 0, sizeof *c);
	static const uint32_t Ls[] = { 1, 4, 8, 13, 32 };
	c->L = Ls[rng_below(r, 5)];
	switch (rng_below(r, 10)) {
	case 0: case 1: c->codec = 1; c->k = 1 + rng_below(r, 12); c->r = 1 + rng_below(r, 8); break;
	case 2: c->codec = 2; c->m = 8; c->k = 1 + rng_below(r, 9); c->r = 1 + rng_below(r, 6); break;
	case 3: c->codec = 2; c->m = 4; c->k = 1 + rng_below(r, 8); c->r = 1 + rng_below(r, 15 - c->k > 6 ? 6 : 15 - c->k); break;
	case 4: { static const uint32_t kr[][2] = { {4,4},{6,5},{9,6},{2,3},{12,7},{8,6} }; unsigned i = rng_below(r, 6); c->codec = 5; c->k = kr[i][0]; c->r = kr[i][1]; break; }
	default: c->codec = 3; c->k = 1 + rng_below(r, 20); c->r = 3 + rng_below(r, 14); c->N1 = 3 + rng_below(r, 4); if (c->N1 > c->r) c->N1 = c->r;
		 { static const uint32_t bs[] = { 1, 2, 16807, 2147483645u, 2147483646u };      /* both ends of the legal seed range */
		   c->seed = rng_below(r, 3) == 0 ? bs[rng_below(r, 5)] : 1 + rng_below(r, 2147483646u); } break;
	}
}
static const uint32_t Ls_twin[] = { 1, 4, 8, 13, 32 };
/* now and then a small block of very long symbols: buffers of 128 KiB and more come from another part of the allocator, whose state
 * (thresholds, recycled chunks) is shaped by every earlier session of the process */
static void maybe_big_symbols(rng_t *r, cfg_t *c)
{
	static const uint32_t big[] = { 131072, 163840, 425984 };
	if (rng_below(r, 14)) return;
	c->L = big[rng_below(r, 3)];
	if (c->codec == 5) { c->k = 4; c->r = 4; return; }
	if (c->k > 5) c->k = 2 + rng_below(r, 4);
	if (c->r > 5) c->r = 3 + rng_below(r, 3);
	if (c->codec == 3) { if (c->r < 3) c->r = 3; if (c->N1 > c->r) c->N1 = c->r; if (c->N1 < 3) c->N1 = 3; }
	if (c->codec == 2 && c->m == 4 && c->k + c->r > 15) c->r = 15 - c->k;
}
static int gen_scripts(uint64_t caseseed, script_t *S)
{
	rng_t r = rng_make(caseseed, 12, 12);
	int m = 2 + (int)rng_below(&r, MAXS - 1);
	for (int i = 0; i < m; i++) {
		script_t *s = &S[i]; memset(s, 0, sizeof *s);
		gen_cfg(&r, &s->c);
		maybe_big_symbols(&r, &s->c);
		/* make same-codec neighbours likely: LDPC sessions with different seeds/N1 next to each other */
		if (i > 0 && rng_below(&r, 2) == 0) {
			/* near-twin of an earlier script: the same configuration with exactly one field changed. Process-global state
			 * keyed on too few fields (a cache, a lazily built table) shows up between such neighbours. */
			s->c = S[rng_below(&r, (uint32_t)i)].c;
			switch (rng_below(&r, 5)) {
			case 0: if (s->c.codec == 3) s->c.seed = 1 + rng_below(&r, 2147483646u); else if (s->c.codec == 1) { s->c.codec = 2; s->c.m = 8; } else if (s->c.codec == 2 && s->c.m == 8) { s->c.codec = 1; s->c.m = 0; } break;
			case 1: if (s->c.codec == 3) { s->c.N1 = 3 + rng_below(&r, 4); if (s->c.N1 > s->c.r) s->c.N1 = s->c.r; } else if (s->c.codec == 2 && s->c.k + s->c.r <= 15) s->c.m = s->c.m == 4 ? 8 : 4; break;
			case 2: s->c.L = Ls_twin[rng_below(&r, 5)]; break;
			case 3: if (s->c.codec == 2 && s->c.k + s->c.r <= 15) s->c.m = s->c.m == 4 ? 8 : 4; else if (s->c.codec != 5 && s->c.r > 3) s->c.r--; break;
			default: break;   /* identical twin */
			}
		}
		int pair_with_encoder = 0;
		if (i == 1 && rng_below(&r, 3) == 0) {
			/* an encoder and a decoder (every third time an encoder+decoder instance) of exactly the same code, alive side by side:
			 * whatever the library shares between instances of equal parameters must not be consumed by the one that decodes */
			S[0].kind = 0; S[0].both = 0; S[0].nsteps = 2 + 1 + (int)S[0].c.r + 1;
			s->c = S[0].c; pair_with_encoder = 1;
		}
		s->n = s->c.k + s->c.r;
		s->kind = pair_with_encoder ? 1 : ((int)rng_below(&r, 3) == 0 ? 0 : 1);
		s->verb = rng_below(&r, 3) == 0 ? 1 + rng_below(&r, 2) : 0;
		s->both = s->kind == 1 && rng_below(&r, 3) == 0;   /* what the library prints goes to /dev/null; what it computes must not change */
		if (s->kind == 1) {
			s->api = (int)rng_below(&r, 3) == 0; s->finish = rng_below(&r, 4) != 0; s->cbmode = rng_below(&r, 3) == 0 ? 1 + (int)rng_below(&r, 3) : 0;
			uint32_t m2 = 0; uint32_t perm[MAXN];
			for (uint32_t e = 0; e < s->n; e++) perm[e] = e;
			for (uint32_t e = s->n; e > 1; e--) { uint32_t j = rng_below(&r, e); uint32_t t = perm[e - 1]; perm[e - 1] = perm[j]; perm[j] = t; }
			uint32_t want = s->c.k + rng_below(&r, 4); if (rng_below(&r, 3) == 0) want = s->c.k > 2 ? s->c.k - 2 : 0; if (want > s->n) want = s->n;
			for (uint32_t e = 0; e < want; e++) { s->sub[m2++] = perm[e]; if (!s->api && rng_below(&r, 6) == 0) s->sub[m2++] = perm[rng_below(&r, e + 1)]; }
			if (s->api) { /* a set: sorted */ for (uint32_t a = 0; a < m2; a++) for (uint32_t b = a + 1; b < m2; b++) if (s->sub[b] < s->sub[a]) { uint32_t t = s->sub[a]; s->sub[a] = s->sub[b]; s->sub[b] = t; } }
			s->nsub = m2;
		}
		/* payload: sources from the rng */
		for (uint32_t e = 0; e < s->n; e++) { s->sym[e] = malloc(s->c.L + 1); for (uint32_t b = 0; b < s->c.L; b++) s->sym[e][b] = e < s->c.k ? (uint8_t)rng_u64(&r) : 0; }
		s->nsteps = s->kind == 0 ? 2 + 1 + (int)s->c.r + 1 : 2 + (s->cbmode ? 1 : 0) + (s->api ? 1 : (int)s->nsub) + (s->finish ? 1 : 0) + 1;
	}
	return m;
}
static void free_scripts(script_t *S, int m) { for (int i = 0; i < m; i++) for (uint32_t e = 0; e < S[i].n; e++) { free(S[i].sym[e]); S[i].sym[e] = NULL; } }

/* ---- executor ---- */
static void script_step(script_t *s);
/* interleaved runs only: the other sessions also advance from inside this session's callbacks (an application that services
 * several flows from its decoded-symbol handler); one level deep */
static script_t *g_il_scripts; static int g_il_m, g_il_in_cb; static rng_t *g_il_rng; static uint64_t g_il_steps;
static void *c12_cb(void *ctx, UINT32 size, UINT32 esi)
{
	script_t *s = ctx; void *ret = NULL;
	if (g_il_scripts && !g_il_in_cb && rng_below(g_il_rng, 4) != 0) {
		/* another session advances from inside this callback: a pending session of the same codec if there is one (what two sessions of
		 * one codec share is what nesting can disturb), else any pending one; now and then it runs to the end of its script */
		int start = (int)rng_below(g_il_rng, (uint32_t)g_il_m), pick = -1;
		for (int pass = 0; pass < 2 && pick < 0; pass++) for (int q = 0; q < g_il_m; q++) {
			script_t *o = &g_il_scripts[(start + q) % g_il_m];
			if (o == s || o->pc >= o->nsteps) continue;
			if (pass == 0 && (o->c.codec != s->c.codec || o->c.m != s->c.m)) continue;
			pick = (start + q) % g_il_m; break;
		}
		if (pick >= 0) {
			script_t *o = &g_il_scripts[pick]; int burst = rng_below(g_il_rng, 3) == 0 ? 64 : 1 + (int)rng_below(g_il_rng, 3);
			g_il_in_cb = 1;
			while (burst-- > 0 && o->pc < o->nsteps - 1) { script_step(o); g_il_steps++; }
			g_il_in_cb = 0;
		}
	}
	s->cbacc += hash64(esi + 1, size) | 1;           /* a commutative accumulation: the set of events, not their order */
	s->cbn++;
	int give = s->cbmode == 1 ? 1 : s->cbmode == 2 ? 0 : !(esi & 1);
	if (give && esi < s->c.k) { ret = malloc(s->c.L + 1); if (s->cbbuf[esi]) free(s->cbbuf[esi]); s->cbbuf[esi] = ret; }
	return ret;
}
static void observe(script_t *s, int call, int status, uint64_t outh)
{
	obs_t *o = &s->log[s->nlog++]; memset(o, 0, sizeof *o);
	o->call = call; o->status = status; o->outh = outh; o->cbh = s->cbacc ^ (uint64_t)s->cbn; s->cbacc = 0; s->cbn = 0;
	o->complete = -1;
	if (s->kind == 1 && s->ses && call != CL_CREATE && call != CL_RELEASE && !(call == CL_SETP && status != OF_STATUS_OK)) {
		o->complete = of_is_decoding_complete(s->ses) ? 1 : 0;
		for (uint32_t i = 0; i < s->c.k; i++) s->stab[i] = NULL;
		of_status_t st = of_get_source_symbols_tab(s->ses, s->stab);
		uint64_t h = hash64(7, (uint64_t)st);
		if (st == OF_STATUS_OK) for (uint32_t i = 0; i < s->c.k; i++) {
			void *p = s->stab[i]; char cls = !p ? 'N' : p == (void *)s->sym[i] ? 'A' : p == s->cbbuf[i] ? 'C' : 'L';
			h = hash64(h, (uint64_t)cls); if (p) h = hash_bytes(p, s->c.L, h);
		}
		if (s->c.codec == 3 && s->configured) { UINT32 isnull = 7; of_status_t cs = of_get_control_parameter(s->ses, OF_CRTL_LDPC_STAIRCASE_IS_LAST_SYMBOL_NULL, &isnull, sizeof isnull); h = hash64(h, ((uint64_t)cs << 8) | isnull); }
		o->tabh = h;
	}
}
static void script_step(script_t *s)
{
	of_status_t st; char pb[32]; uint32_t k = s->c.k; int pc = s->pc++;
	if (pc == 0) { st = of_create_codec_instance(&s->ses, (of_codec_id_t)s->c.codec, s->kind ? (s->both ? OF_ENCODER_AND_DECODER : OF_DECODER) : OF_ENCODER, s->verb); observe(s, CL_CREATE, st, 0); return; }
	if (pc == 1) { cfg_params(&s->c, pb); st = of_set_fec_parameters(s->ses, (of_parameters_t *)pb); if (st == OF_STATUS_OK) s->configured = 1; observe(s, CL_SETP, st, 0); if (st != OF_STATUS_OK) s->pc = s->nsteps - 1; return; }
	if (pc == s->nsteps - 1) {
		/* decoded symbols belong to the application: collect them before release */
		void *mine[MAXN]; int nm = 0;
		if (s->kind == 1 && s->configured) { for (uint32_t i = 0; i < k; i++) s->stab[i] = NULL; if (of_get_source_symbols_tab(s->ses, s->stab) == OF_STATUS_OK) for (uint32_t i = 0; i < k; i++) if (s->stab[i] && s->stab[i] != (void *)s->sym[i] && s->stab[i] != s->cbbuf[i]) mine[nm++] = s->stab[i]; }
		st = of_release_codec_instance(s->ses); s->ses = NULL; observe(s, CL_RELEASE, st, 0);
		for (int i = 0; i < nm; i++) free(mine[i]);
		for (uint32_t i = 0; i < k; i++) if (s->cbbuf[i]) { free(s->cbbuf[i]); s->cbbuf[i] = NULL; }
		return;
	}
	if (s->kind == 0) {
		if (pc == 2) { UINT32 v = 0, isnull = 7; st = of_get_control_parameter(s->ses, OF_CTRL_GET_MAX_N, &v, sizeof v);
			if (s->c.codec == 3) { of_status_t cs = of_get_control_parameter(s->ses, OF_CRTL_LDPC_STAIRCASE_IS_LAST_SYMBOL_NULL, &isnull, sizeof isnull); isnull |= (UINT32)cs << 8; }
			observe(s, CL_CTRL, st, ((uint64_t)isnull << 32) | v); return; }
		uint32_t esi = k + (uint32_t)(pc - 3);
		for (uint32_t e = 0; e < s->n; e++) s->tab[e] = s->sym[e];
		st = of_build_repair_symbol(s->ses, s->tab, esi);
		observe(s, CL_BUILD, st, hash_bytes(s->sym[esi], s->c.L, esi));
		return;
	}
	int i = pc - 2;
	if (s->cbmode) { if (i == 0) { st = of_set_callback_functions(s->ses, c12_cb, NULL, s); observe(s, CL_SETCB, st, 0); return; } i--; }
	if (s->api) {
		if (i == 0) { for (uint32_t e = 0; e < s->n; e++) s->tab[e] = NULL; for (uint32_t j = 0; j < s->nsub; j++) s->tab[s->sub[j]] = s->sym[s->sub[j]]; st = of_set_available_symbols(s->ses, s->tab); observe(s, CL_SETAVAIL, st, 0); return; }
		i--;
	} else {
		if (i < (int)s->nsub) { uint32_t esi = s->sub[i]; st = of_decode_with_new_symbol(s->ses, s->sym[esi], esi); observe(s, CL_DECODE, st, esi); return; }
		i -= (int)s->nsub;
	}
	if (s->finish && i == 0) { st = of_finish_decoding(s->ses); observe(s, CL_FINISH, st, 0); return; }
	rep_fatal("C12: script step out of range");
}

/* the codeword a decoder script works on is produced once, by the parent, and handed to the child in a file */
static int prepare_blocks(script_t *S, int m, rng_t *r)
{
	for (int i = 0; i < m; i++) {
		script_t *s = &S[i]; if (s->kind == 0) continue;
		block_t b; const char *sv = g_prop; g_prop = "";
		/* build with the very payload of the script */
		of_session_t *e = NULL; char pb[32]; void *tab[MAXN]; int ok = 1;
		(void)b; (void)r;
		if (of_create_codec_instance(&e, (of_codec_id_t)s->c.codec, OF_ENCODER, 0) != OF_STATUS_OK) ok = 0;
		cfg_params(&s->c, pb);
		if (ok && of_set_fec_parameters(e, (of_parameters_t *)pb) != OF_STATUS_OK) { of_release_codec_instance(e); g_prop = sv; continue; }   /* a rejected twin: its script sees the same rejection in both runs */
		for (uint32_t x = 0; x < s->n; x++) tab[x] = s->sym[x];
		for (uint32_t x = s->c.k; ok && x < s->n; x++) if (of_build_repair_symbol(e, tab, x) != OF_STATUS_OK) ok = 0;
		if (e) of_release_codec_instance(e);
		g_prop = sv;
		if (!ok) return -1;
	}
	return 0;
}
static void write_blocks(const char *path, script_t *S, int m)
{
	FILE *f = fopen(path, "wb"); if (!f) rep_fatal("C12: cannot write %s", path);
	for (int i = 0; i < m; i++) if (S[i].kind == 1) for (uint32_t e = S[i].c.k; e < S[i].n; e++) fwrite(S[i].sym[e], 1, S[i].c.L, f);
	fclose(f);
}
static void read_blocks(const char *path, script_t *S, int m)
{
	FILE *f = fopen(path, "rb"); if (!f) rep_fatal("C12child: cannot read %s", path);
	for (int i = 0; i < m; i++) if (S[i].kind == 1) for (uint32_t e = S[i].c.k; e < S[i].n; e++) if (fread(S[i].sym[e], 1, S[i].c.L, f) != S[i].c.L) rep_fatal("C12child: short block file");
	fclose(f);
}
static void emit_log(int idx, script_t *s)
{
	char line[256];
	for (int j = 0; j < s->nlog; j++) {
		obs_t *o = &s->log[j];
		int n = snprintf(line, sizeof line, "N\tLOG %d %d %d %d %d %llx %llx %llx\n", idx, j, o->call, o->status, o->complete, (unsigned long long)o->outh, (unsigned long long)o->tabh, (unsigned long long)o->cbh);
		if (write(g_report_fd, line, (size_t)n) < 0) {}
	}
}

/* child: a process that has not touched the library; one fork per script */
int p_c12_child(void)
{
	const char *a = getenv("OFH_CHILD"); unsigned long long cs; char path[300];
	if (!a || sscanf(a, "%llu %299s", &cs, path) != 2) rep_fatal("C12child: bad OFH_CHILD");
	static script_t S[MAXS];
	int m = gen_scripts(cs, S);
	read_blocks(path, S, m);
	for (int i = 0; i < m; i++) {
		fflush(NULL);
		pid_t pid = fork();
		if (pid < 0) rep_fatal("C12child: fork");
		if (pid == 0) { alarm(60); script_t *s = &S[i]; while (s->pc < s->nsteps) script_step(s); emit_log(i, s); _exit(0); }
		int status = 0; while (waitpid(pid, &status, 0) < 0) ;
		if (!WIFEXITED(status) || WEXITSTATUS(status)) { char line[80]; int n = snprintf(line, sizeof line, "N\tLOGDIED %d %d\n", i, status); if (write(g_report_fd, line, (size_t)n) < 0) {} }
	}
	return 0;
}

static uint64_t g_interleavings_seen[1];

static void one_case(uint64_t caseseed, int merge_style, long unit, long idx)
{
	static script_t S[MAXS], R[MAXS];
	if (!rep_case("interleaving caseseed=%llu merge=%d", (unsigned long long)caseseed, merge_style)) return;
	int m = gen_scripts(caseseed, S);
	rng_t r = rng_make(caseseed, 99, 1);
	if (prepare_blocks(S, m, &r)) { rep_viol("interference:setup", "reference encoding failed"); free_scripts(S, m); rep_case_done(0, 0, 1); return; }
	char path[200]; snprintf(path, sizeof path, "c12blocks.%d.%ld.%ld", (int)getpid(), unit, idx);
	write_blocks(path, S, m);
	/* (a) each script alone in a fresh process — first, so that a library that dies even alone is told apart from interference */
	char cmd[900], exe[400]; ssize_t n = readlink("/proc/self/exe", exe, sizeof exe - 1); if (n <= 0) rep_fatal("C12: readlink"); exe[n] = 0;
	snprintf(cmd, sizeof cmd, "OFH_CUR= OFH_CHILD='%llu %s' ASAN_OPTIONS=detect_leaks=0 timeout -s KILL 120 '%s' C12child 2>/dev/null", (unsigned long long)caseseed, path, exe);
	FILE *f = popen(cmd, "r"); if (!f) rep_fatal("C12: popen");
	memset(R, 0, sizeof R);
	char line[400]; int died = 0;
	while (fgets(line, sizeof line, f)) {
		int si, j, call, st, cp; unsigned long long a, b, c;
		if (sscanf(line, "N\tLOG %d %d %d %d %d %llx %llx %llx", &si, &j, &call, &st, &cp, &a, &b, &c) == 8 && si >= 0 && si < m && j >= 0 && j < (int)(sizeof R[0].log / sizeof R[0].log[0])) {
			obs_t *o = &R[si].log[j]; o->call = call; o->status = st; o->complete = cp; o->outh = a; o->tabh = b; o->cbh = c; if (j + 1 > R[si].nlog) R[si].nlog = j + 1;
		} else if (!strncmp(line, "N\tLOGDIED", 9)) died = 1;
	}
	pclose(f); unlink(path);
	if (died) {
		/* crash policy (DESIGN.md 3.3): when the solo replay dies, the case says nothing about independence */
		rep_inconclusive("the solo replay of a script died; not an independence question (see the C07 check)");
		rep_count("cases_skipped_because_the_solo_run_died", 1);
		free_scripts(S, m); rep_case_done(0, 0, 1); return;
	}

	/* (b) interleaved in this process, which already has a long history of other sessions */
	uint64_t order_hash = 7; int total = 0, done = 0, rr = 0; int block = 1 + (int)rng_below(&r, 4);
	for (int i = 0; i < m; i++) total += S[i].nsteps;
	int pairs[8][8]; memset(pairs, 0, sizeof pairs); int last = -1;
	g_il_scripts = S; g_il_m = m; g_il_rng = &r; g_il_in_cb = 0;
	for (;;) {
		int i, left = 0;
		for (int q = 0; q < m; q++) left += S[q].pc < S[q].nsteps;     /* a rejected configuration shortens its script */
		if (!left) break;
		if (merge_style == 0) { do i = (int)rng_below(&r, (uint32_t)m); while (S[i].pc >= S[i].nsteps); }                 /* uniformly random merge */
		else if (merge_style == 1) { while (S[rr % m].pc >= S[rr % m].nsteps) rr++; i = rr % m; rr++; }                      /* strict round robin: maximal interleaving */
		else { while (S[rr % m].pc >= S[rr % m].nsteps) rr++; i = rr % m; if (--block <= 0) { rr++; block = 1 + (int)rng_below(&r, 4); } }   /* bursts of 1..4 calls */
		script_step(&S[i]); done++;
		order_hash = hash64(order_hash, (uint64_t)i);
		if (last >= 0 && last != i) pairs[S[last].c.codec][S[i].c.codec] = 1;
		last = i;
	}
	g_il_scripts = NULL;
	rep_count("calls_of_other_sessions_made_from_inside_a_callback", g_il_steps); g_il_steps = 0;
	for (int a = 0; a < 8; a++) for (int b = 0; b < 8; b++) if (pairs[a][b]) { char nm[64]; snprintf(nm, sizeof nm, "adjacent_codec_pair_%d_%d", a, b); rep_count(nm, 1); }

	int nontrivial = 0;
	for (int i = 0; i < m; i++) {
		script_t *s = &S[i]; char key[160];
		if (R[i].nlog != s->nlog) {
			if (died) { snprintf(key, sizeof key, "interference:%s:solo-run-died", codec_name(&s->c)); rep_viol(key, "the solo replay of script %d died (interleaved log has %d calls, solo %d)", i, s->nlog, R[i].nlog); }
			else { snprintf(key, sizeof key, "interference:%s:log-length", codec_name(&s->c)); rep_viol(key, "script %d: %d observations interleaved, %d solo", i, s->nlog, R[i].nlog); }
			continue;
		}
		for (int j = 0; j < s->nlog; j++) {
			obs_t *x = &s->log[j], *y = &R[i].log[j]; const char *field = NULL;
			if (x->status != y->status) field = "status"; else if (x->complete != y->complete) field = "completion";
			else if (x->outh != y->outh) field = "output-buffer"; else if (x->tabh != y->tabh) field = "source-table"; else if (x->cbh != y->cbh) field = "callbacks";
			if (field) { snprintf(key, sizeof key, "interference:%s:%s:%s", codec_name(&s->c), callname(x->call), field);
				rep_viol(key, "script %d (%s %s k=%u r=%u N1=%u seed=%u) call #%d differs from the solo run in a fresh process", i, s->kind ? "decoder" : "encoder", codec_name(&s->c), s->c.k, s->c.r, s->c.N1, s->c.seed, j); break; }
		}
		if (s->nlog > 3) nontrivial = 1;
		rep_count("session_scripts", 1); rep_count("api_calls_compared", (uint64_t)s->nlog);
	}
	free_scripts(S, m);
	rep_sample(merge_style == 0 ? "random-merge" : merge_style == 1 ? "round-robin" : "bursts");
	(void)g_interleavings_seen;
	rep_case_done(nontrivial, order_hash ^ caseseed, 0);
}

/* the process in which scripts run interleaved is an old one: thousands of sessions of every codec have been created, fed
 * (with duplicates), completed, failed and released in it before the first compared case; the solo replay runs in a fresh process */
static void age_process(uint64_t seed, int ncases)
{
	static script_t S[MAXS];
	rng_t r = rng_make(seed, 1299, 7); uint64_t sessions = 0, completed = 0;
	for (int c = 0; c < ncases; c++) {
		int m = gen_scripts(rng_u64(&r) >> 1, S);
		rng_t rr = rng_make(seed, 1298, (uint64_t)c);
		if (prepare_blocks(S, m, &rr) == 0)
			for (int i = 0; i < m; i++) {
				script_t *s = &S[i];
				while (s->pc < s->nsteps) script_step(s);
				sessions++;
				for (int j = 0; j < s->nlog; j++) if (s->log[j].complete == 1) { completed++; break; }
			}
		free_scripts(S, m);
	}
	rep_count("sessions_run_in_the_process_before_the_compared_ones", sessions);
	rep_count("of_which_reached_completion", completed);
}

int p_c12(void)
{
	g_prop = "C12";
	int T = g_run.thorough; long unit = 0;
	age_process(g_run.seed, T ? 12000 : 3000);
	int nunits = 64; long per = T ? 1600 : 32;
	for (int u = 0; u < nunits; u++, unit++) {
		rep_unit(unit);
		if (!rep_unit_mine(unit)) continue;
		rng_t r = rng_make(g_run.seed, 1200 + (uint64_t)u, 12);
		for (long s = 0; s < per; s++) { uint64_t cs = rng_u64(&r) >> 1; one_case(cs, (int)(s % 3), unit, s); }
	}
	return 0;
}
