/* Independent GF(2^m) arithmetic (bit-serial; no tables shared with the library). DESIGN.md §3.2 */
#ifndef OFH_GF_H
#define OFH_GF_H
#include <stdint.h>
unsigned gfo_poly(int m);                         /* 0x13 for m=4, 0x11D for m=8 */
unsigned gfo_mul(int m, unsigned a, unsigned b);  /* product in GF(2)[x]/poly */
unsigned gfo_pow(int m, unsigned a, unsigned e);
unsigned gfo_inv(int m, unsigned a);              /* a != 0 */
unsigned gfo_exp(int m, unsigned i);              /* x^i */
int      gfo_log(int m, unsigned a);              /* a != 0; discrete log base x, in 0..2^m-2 */
int      gfo_selftest(void);                      /* 0 = ok */
#endif
