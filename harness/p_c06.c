/* C06 — encoders emit the canonical codeword of the configured code (DESIGN.md §5 C06).
 * RS: reference generator from the Vandermonde matrix on 0,1,a,a^2,... (rsref.c, own Gauss-Jordan, gf.c arithmetic),
 *     codec 1 vs codec 2 (m=8) compared byte for byte.
 * LDPC-Staircase: every parity-check equation of the RFC 5170 matrix (rfc5170.c) sums to zero over the emitted codeword.
 * Source immutability: arena (PROT_READ / checksum). NULL output slots: session.c:block_build. */
#include "session.h"
#include "of_openfec_api.h"
#include "arena.h"
#include "rsref.h"
#include "rfc5170.h"

static const uint32_t LENS[] = { 1, 2, 3, 5, 8, 15, 16, 17, 33, 64, 127, 1024 };

static void rs_case(int codec, int m, uint32_t k, uint32_t r, uint32_t L, int payload, uint64_t nullmask, rng_t *rng, const uint8_t *G, block_t *keep)
{
	cfg_t c = { codec, m, k, r, L, 0, 0 };
	if (!rep_case("rs-encode codec=%s k=%u r=%u L=%u payload=%d nullslots=0x%llx", codec_name(&c), k, r, L, payload, (unsigned long long)nullmask)) return;
	block_t b; char key[96];
	int rc = block_build(&b, &c, payload, rng, nullmask, -1);
	if (rc > 0) { snprintf(key, sizeof key, "encoder-rejects-valid-config:%s", codec_name(&c)); rep_viol(key, "k=%u r=%u", k, r); block_free(&b); rep_case_done(1, 0, 1); return; }
	if (rc == 0) {
		uint8_t *exp = malloc(L + 1);
		for (uint32_t e = k; e < k + r; e++) {
			rsref_encode_row(m ? m : 8, G + (size_t)e * k, k, b.sym, L, exp);
			if (memcmp(exp, b.sym[e], L)) { snprintf(key, sizeof key, "rs-generator-differs:%s", codec_name(&c)); rep_viol(key, "repair esi=%u differs from the reference code (k=%u n=%u L=%u)", e, k, k + r, L); break; }
			rep_count("repair_symbols_compared_with_reference", 1);
		}
		free(exp);
	}
	if (keep && rc == 0) *keep = b; else block_free(&b);
	rep_case_done(1, 0, 1);
}

static void ldpc_case(uint32_t k, uint32_t r, uint32_t N1, uint32_t seed, uint32_t L, int payload, uint64_t nullmask, rng_t *rng)
{
	cfg_t c = { 3, 0, k, r, L, N1, seed };
	if (!rep_case("ldpc-encode k=%u r=%u N1=%u seed=%u L=%u payload=%d nullslots=0x%llx", k, r, N1, seed, L, payload, (unsigned long long)nullmask)) return;
	block_t b;
	int rc = block_build(&b, &c, payload, rng, nullmask, -1);
	if (rc > 0) rep_viol("encoder-rejects-valid-config:ldpc", "k=%u r=%u N1=%u seed=%u", k, r, N1, seed);
	if (rc == 0) {
		rfc_mat_t *M = rfc5170_build(k, r, N1, seed);
		uint8_t *acc = malloc(L + 1);
		for (uint32_t j = 0; j < r; j++) {
			memcpy(acc, b.sym[k + j], L);
			if (j) for (uint32_t x = 0; x < L; x++) acc[x] ^= b.sym[k + j - 1][x];
			for (unsigned t = 0; t < M->row_len[j]; t++) { const uint8_t *s = b.sym[M->row_cols[j][t]]; for (uint32_t x = 0; x < L; x++) acc[x] ^= s[x]; }
			int z = 1; for (uint32_t x = 0; x < L; x++) if (acc[x]) z = 0;
			if (!z) { rep_viol("ldpc-equation-unsatisfied", "equation %u of the RFC 5170 matrix does not sum to zero over the emitted codeword (k=%u r=%u N1=%u seed=%u)", j, k, r, N1, seed); break; }
			rep_count("ldpc_equations_checked", 1);
		}
		free(acc); rfc5170_free(M);
	}
	block_free(&b);
	rep_case_done(1, 0, 1);
}

/* two encoder sessions alive at the same time, their of_build_repair_symbol calls alternating; every symbol against the reference */
static void two_encoders(int mA, uint32_t kA, uint32_t rA, int mB, uint32_t kB, uint32_t rB, uint32_t L, rng_t *rng)
{
	if (!rep_case("two encoders alive: rs2m%d k=%u r=%u and rs2m%d k=%u r=%u L=%u, builds alternate", mA, kA, rA, mB, kB, rB, L)) return;
	struct { int m; uint32_t k, r; of_session_t *s; uint8_t *sym[32]; void *tab[32]; uint8_t *G; } E[2] = { { mA, kA, rA }, { mB, kB, rB } };
	int ok = 1;
	for (int e = 0; e < 2 && ok; e++) {
		of_rs_2_m_parameters_t prm; memset(&prm, 0, sizeof prm); prm.nb_source_symbols = E[e].k; prm.nb_repair_symbols = E[e].r; prm.encoding_symbol_length = L; prm.m = (UINT16)E[e].m;
		if (of_create_codec_instance(&E[e].s, OF_CODEC_REED_SOLOMON_GF_2_M_STABLE, OF_ENCODER, 0) != OF_STATUS_OK || of_set_fec_parameters(E[e].s, (of_parameters_t *)&prm) != OF_STATUS_OK) ok = 0;
		E[e].G = malloc((size_t)(E[e].k + E[e].r) * E[e].k + 1);
		if (ok && rsref_generator(E[e].m, E[e].k, E[e].k + E[e].r, E[e].G)) rep_fatal("rsref: singular (two encoders)");
		for (uint32_t i = 0; i < E[e].k + E[e].r; i++) { E[e].sym[i] = calloc(1, L + 1); E[e].tab[i] = E[e].sym[i]; if (i < E[e].k) for (uint32_t b = 0; b < L; b++) E[e].sym[i][b] = (uint8_t)rng_u64(rng); }
	}
	uint8_t *exp = malloc(L + 1); uint32_t done[2] = { 0, 0 };
	while (ok && (done[0] < E[0].r || done[1] < E[1].r)) for (int e = 0; e < 2; e++) {
		if (done[e] >= E[e].r) continue;
		uint32_t esi = E[e].k + done[e]++;
		if (of_build_repair_symbol(E[e].s, E[e].tab, esi) != OF_STATUS_OK) { rep_viol("encoder-build-failed", "two encoders alive, session %d esi=%u", e, esi); ok = 0; break; }
		rsref_encode_row(E[e].m, E[e].G + (size_t)esi * E[e].k, E[e].k, E[e].sym, L, exp);
		if (memcmp(exp, E[e].sym[esi], L)) { char key[96]; snprintf(key, sizeof key, "rs-generator-differs:rs2m%d", E[e].m); rep_viol(key, "repair esi=%u of session %d (k=%u n=%u L=%u) differs from the reference code while a GF(2^%d) encoder is alive and building too", esi, e, E[e].k, E[e].k + E[e].r, L, E[1 - e].m); ok = 0; break; }
		rep_count("repair_symbols_compared_with_reference", 1);
	}
	for (int e = 0; e < 2; e++) { if (E[e].s) of_release_codec_instance(E[e].s); for (uint32_t i = 0; i < 32; i++) free(E[e].sym[i]); free(E[e].G); }
	free(exp);
	rep_case_done(1, 0, 1);
}

int p_c06(void)
{
	g_prop = "C06";
	ar_init();
	long unit = 0; int T = g_run.thorough;
	unsigned nl = sizeof LENS / sizeof LENS[0];
	/* RS: for each m, every k in 1..2^m-2 with n = 2^m-1: every repair ESI (the generator row depends only on (m,k,esi)) */
	for (int m = 4; m <= 8; m += 4) {
		uint32_t nmax = (1u << m) - 1;
		for (uint32_t k = 1; k < nmax; k++, unit++) {
			rep_unit(unit);
			if (!rep_unit_mine(unit)) continue;
			rng_t rng = rng_make(g_run.seed, 600 + (uint64_t)m, k);
			uint32_t r = nmax - k;
			uint8_t *G = malloc((size_t)nmax * k + 1);
			if (rsref_generator(m, k, nmax, G)) rep_fatal("rsref: singular Vandermonde block m=%d k=%u", m, k);
			int npay = T ? 10 : 2;
			for (int pv = 0; pv < npay; pv++) {
				uint32_t L = pv == 0 ? (k + 7) / 8 + (k % 3) : LENS[(k + (unsigned)pv * 5) % nl];
				int payload = pv == 0 ? PAY_IDENTITY : PAY_RANDOM;
				uint64_t nullmask = (pv & 1) ? rng_u64(&rng) : 0;
				if (m == 8) {
					block_t b1, b2; memset(&b1, 0, sizeof b1); memset(&b2, 0, sizeof b2);
					rng_t ra = rng_make(g_run.seed, 700 + k, (uint64_t)pv), rb = ra;   /* same payload for both codecs */
					rs_case(1, 0, k, r, L, payload, nullmask, &ra, G, &b1);
					rs_case(2, 8, k, r, L, payload, nullmask, &rb, G, &b2);
					if (b1.sym && b2.sym && rep_case("rs28-vs-rs2m8 k=%u r=%u L=%u", k, r, L)) {
						for (uint32_t e = 0; e < nmax; e++) if (memcmp(b1.sym[e], b2.sym[e], L)) { rep_viol("rs28-vs-rs2m8-differ", "codec 1 and codec 2 (m=8) disagree on esi=%u (k=%u L=%u)", e, k, L); break; }
						rep_count("codec1_codec2_codewords_compared", 1);
						rep_case_done(1, 0, 1);
					} else if (b1.sym && b2.sym) { }
					if (b1.sym) block_free(&b1);
					if (b2.sym) block_free(&b2);
				} else rs_case(2, 4, k, r, L, payload, nullmask, &rng, G, NULL);
			}
			/* shorter codes share rows only by value, so also sample n < 2^m-1 */
			for (int j = 0; j < (T ? 24 : 2); j++) {
				uint32_t r2 = 1 + rng_below(&rng, r);
				uint8_t *G2 = malloc((size_t)(k + r2) * k + 1);
				if (rsref_generator(m, k, k + r2, G2)) rep_fatal("rsref: singular (short)");
				if (m == 8 && (j & 1)) rs_case(1, 0, k, r2, LENS[rng_below(&rng, nl)], PAY_RANDOM, rng_u64(&rng) & rng_u64(&rng), &rng, G2, NULL);
				else rs_case(2, m, k, r2, LENS[rng_below(&rng, nl)], PAY_RANDOM, rng_u64(&rng) & rng_u64(&rng), &rng, G2, NULL);
				free(G2);
			}
			free(G);
		}
	}
	/* the same (k, n-k) in GF(2^4) and GF(2^8), back to back in one process, in both directions (anything remembered between
	 * sessions must be keyed on the field as well); codec 1 in between */
	rep_unit(unit);
	if (rep_unit_mine(unit)) {
		rng_t rng = rng_make(g_run.seed, 650, 0);
		for (uint32_t k = 1; k <= 14; k++) for (uint32_t r = 1; k + r <= 15; r += (T ? 1 : 3)) {
			uint8_t *G4 = malloc((size_t)(k + r) * k + 1), *G8 = malloc((size_t)(k + r) * k + 1);
			if (rsref_generator(4, k, k + r, G4) || rsref_generator(8, k, k + r, G8)) rep_fatal("rsref: singular (toggle)");
			uint32_t L = LENS[(k + r) % nl];
			rs_case(2, 4, k, r, L, PAY_RANDOM, 0, &rng, G4, NULL);
			rs_case(2, 8, k, r, L, PAY_RANDOM, 0, &rng, G8, NULL);
			rs_case(2, 4, k, r, L, PAY_RANDOM, 0, &rng, G4, NULL);
			if ((k + r) % 4 == 0) { rs_case(1, 0, k, r, L, PAY_RANDOM, 0, &rng, G8, NULL); rs_case(2, 8, k, r, L, PAY_RANDOM, 0, &rng, G8, NULL); }
			free(G4); free(G8);
		}
	}
	unit++;
	rep_unit(unit);
	if (rep_unit_mine(unit)) {
		rng_t rng = rng_make(g_run.seed, 655, 0);
		for (int i = 0; i < (T ? 200 : 40); i++) {
			int mA = rng_below(&rng, 2) ? 4 : 8, mB = rng_below(&rng, 3) ? 12 - mA : mA;
			uint32_t kA = 1 + rng_below(&rng, 9), rA = 2 + rng_below(&rng, 15 - kA - 1), kB = 1 + rng_below(&rng, 9), rB = 2 + rng_below(&rng, 15 - kB - 1);
			two_encoders(mA, kA, rA, mB, kB, rB, LENS[rng_below(&rng, nl)], &rng);
		}
	}
	unit++;
	/* LDPC-Staircase */
	static const uint32_t ks[] = { 1, 2, 3, 4, 5, 6, 7, 8, 9, 10, 12, 16, 20, 33, 64, 100, 257, 1000 };
	static const uint32_t seeds[] = { 1, 2, 16807, 2147483646u };
	for (unsigned ki = 0; ki < sizeof ks / sizeof ks[0]; ki++) {
		uint32_t k = ks[ki];
		uint32_t rl[8] = { 3, 4, 5, 7, 12, k / 2 < 3 ? 3 : k / 2, k < 3 ? 3 : k, 3 * k < 3 ? 3 : 3 * k };
		for (int ri = 0; ri < 8; ri++, unit++) {
			rep_unit(unit);
			if (!rep_unit_mine(unit)) continue;
			uint32_t r = rl[ri];
			rng_t rng = rng_make(g_run.seed, 800 + k, r);
			for (uint32_t N1 = 3; N1 <= r && N1 <= 10; N1 += (N1 < 6 || T ? 1 : 2))
				for (int s = 0; s < (T ? 16 : 2); s++) {
					uint32_t seed = s < 4 ? seeds[(s + k + r) % 4] : 1 + (uint32_t)(rng_u64(&rng) % 2147483646u);
					uint32_t L = k > 200 ? 16 : LENS[rng_below(&rng, nl)];
					ldpc_case(k, r, N1, seed, L, (s & 1) ? PAY_IDENTITY : PAY_RANDOM, (s & 1) ? 0 : rng_u64(&rng) & rng_u64(&rng), &rng);
				}
		}
	}
	/* equations with 31..33 / 63..65 terms */
	rep_unit(unit);
	if (rep_unit_mine(unit)) {
		rng_t rng = rng_make(g_run.seed, 897, 0);
		static const uint32_t kk[] = { 60, 62, 63, 64, 65, 66, 126, 127, 128, 130 };
		for (unsigned i = 0; i < sizeof kk / sizeof kk[0]; i++) { ldpc_case(kk[i], 8, 4, seeds[i % 4], LENS[rng_below(&rng, nl)], PAY_RANDOM, 0, &rng); ldpc_case(kk[i], 6, 3, seeds[(i + 1) % 4], LENS[rng_below(&rng, nl)], PAY_RANDOM, 0, &rng); }
	}
	unit++;
	/* (N1*k)^2 above 2^33 (see p_c05.c): the canonical codeword of a large, high-degree code */
	rep_unit(unit);
	if (rep_unit_mine(unit)) { rng_t rng = rng_make(g_run.seed, 898, 0); ldpc_case(30000, 300, 8, 1 + (uint32_t)(rng_u64(&rng) % 2147483646u), 4, PAY_RANDOM, 0, &rng); ldpc_case(12000, 6000, 10, 16807, 4, PAY_RANDOM, 0, &rng); }
	unit++;
	if (T) {
		rep_unit(unit);
		if (rep_unit_mine(unit)) { rng_t rng = rng_make(g_run.seed, 899, 0); ldpc_case(20000, 10000, 5, 1, 4, PAY_RANDOM, 0, &rng); ldpc_case(49997, 3, 3, 2147483646u, 4, PAY_RANDOM, 0, &rng); }
		unit++;
	}
	rep_count("bytes_of_application_memory_under_protection", ar_bytes_protected());
	return 0;
}
