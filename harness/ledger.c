#include "ledger.h"
#include <string.h>
#include <stdlib.h>

void *__real_malloc(size_t); void *__real_calloc(size_t, size_t); void *__real_realloc(void *, size_t); void __real_free(void *);

int g_in_lib, g_led_active = 1;
#ifdef OFH_FRAME_POINTERS
#define SITE2() __builtin_return_address(1)
#else
#define SITE2() NULL      /* -O3 build: of_malloc() tail-calls malloc, so the first site already is the real caller */
#endif
uint64_t g_led_allocs, g_led_frees, g_led_bad_free;
void *g_led_bad_free_ptr, *g_led_bad_free_site;

#include <execinfo.h>
int g_led_deep;      /* 1: record the first frames of the allocating stack (slow; used when re-running a leaking case) */
typedef struct { void *p; size_t size; void *site; uint64_t seq; int handed; uint32_t gen; void *bt[5]; } ent_t;
static uint32_t g_gen = 1; static uint64_t g_unhanded;
#define EMPTY(e) (!(e).p || (e).gen != g_gen)
static ent_t *g_tab; static size_t g_cap, g_n; static uint64_t g_seq; static int g_busy;
#define TOMB ((void *)1)

static size_t pos(const void *p, size_t cap) { return (size_t)(((uintptr_t)p >> 4) * 0x9E3779B97F4A7C15ULL >> 16) & (cap - 1); }
static void grow(void)
{
	size_t ncap = g_cap ? g_cap * 2 : 1u << 10; ent_t *nt = __real_calloc(ncap, sizeof *nt);
	if (!nt) abort();
	for (size_t i = 0; i < g_cap; i++) if (!EMPTY(g_tab[i]) && g_tab[i].p != TOMB) {
		size_t j = pos(g_tab[i].p, ncap); while (nt[j].p) j = (j + 1) & (ncap - 1); nt[j] = g_tab[i];
	}
	__real_free(g_tab); g_tab = nt; g_cap = ncap;
	/* tombstones are dropped by the rebuild */
	g_n = 0; for (size_t i = 0; i < g_cap; i++) if (g_tab[i].p) g_n++;
	/* only current-generation entries were copied */
}
static ent_t *find(const void *p)
{
	if (!g_cap || !p) return NULL;
	size_t j = pos(p, g_cap);
	while (!EMPTY(g_tab[j])) { if (g_tab[j].p == p) return &g_tab[j]; j = (j + 1) & (g_cap - 1); }
	return NULL;
}
static void add(void *p, size_t size, void *site, void *site2)
{
	if (!p) return;
	if ((g_n + 1) * 2 > g_cap) grow();
	size_t j = pos(p, g_cap);
	while (!EMPTY(g_tab[j]) && g_tab[j].p != TOMB) j = (j + 1) & (g_cap - 1);
	if (EMPTY(g_tab[j])) g_n++;
	g_tab[j].gen = g_gen; g_unhanded++;
	g_tab[j].p = p; g_tab[j].size = size; g_tab[j].site = site; g_tab[j].seq = ++g_seq; g_tab[j].handed = 0;
	memset(g_tab[j].bt, 0, sizeof g_tab[j].bt);
	g_tab[j].bt[0] = site2;
	if (g_led_deep) { void *bt[8]; int n = backtrace(bt, 8); for (int i = 2; i < n && i < 6; i++) g_tab[j].bt[i - 1] = bt[i]; }
	g_led_allocs++;
}
static int del(void *p)
{
	ent_t *e = find(p); if (!e) return 0;
	if (!e->handed) g_unhanded--;
	e->p = TOMB; g_led_frees++; return 1;
}

void led_reset(void) { g_gen++; g_n = 0; g_unhanded = 0; if (g_gen == 0xFFFFFFFFu && g_tab) { memset(g_tab, 0, g_cap * sizeof *g_tab); g_gen = 1; } }
int led_is_lib(const void *p) { return find(p) != NULL; }
size_t led_size(const void *p) { ent_t *e = find(p); return e ? e->size : 0; }
void led_handover(const void *p) { ent_t *e = find(p); if (e && !e->handed) { e->handed = 1; g_unhanded--; } }
uint64_t led_live_count(void) { return g_unhanded; }
size_t led_live(led_ent_t *out, size_t max)
{
	size_t n = 0;
	for (size_t i = 0; i < g_cap; i++) if (!EMPTY(g_tab[i]) && g_tab[i].p != TOMB && !g_tab[i].handed) {
		if (n < max) { out[n].p = g_tab[i].p; out[n].size = g_tab[i].size; out[n].site = g_tab[i].site; out[n].seq = g_tab[i].seq; memcpy(out[n].bt, g_tab[i].bt, sizeof out[n].bt); }
		n++;
	}
	return n;
}

/* Blocks allocated inside a library call are tracked. A free() is checked when it happens inside a
 * library call: the pointer must be a live tracked block or a block the library did not allocate
 * itself but may legitimately free... there is none: the library never frees application memory.
 * So an in-library free of an untracked, non-NULL pointer is a double/foreign free. The real free is
 * then skipped (the block may be gone already) and the event recorded for the monitor. */
void *__wrap_malloc(size_t n)
{
	void *p = __real_malloc(n);
	if (g_led_active && g_in_lib > 0 && !g_busy) { g_busy = 1; add(p, n, __builtin_return_address(0), SITE2()); g_busy = 0; }
	return p;
}
void *__wrap_calloc(size_t a, size_t b)
{
	void *p = __real_calloc(a, b);
	if (g_led_active && g_in_lib > 0 && !g_busy) { g_busy = 1; add(p, a * b, __builtin_return_address(0), SITE2()); g_busy = 0; }
	return p;
}
void *__wrap_realloc(void *o, size_t n)
{
	if (g_led_active && g_in_lib > 0 && !g_busy) {
		g_busy = 1;
		int tracked = o ? del(o) : 1;
		if (o && !tracked) { g_led_bad_free++; g_led_bad_free_ptr = o; g_led_bad_free_site = __builtin_return_address(0); }
		g_busy = 0;
		/* the session control block is calloc'ed and then realloc'ed inside library calls: tracked */
		void *p = __real_realloc(tracked ? o : NULL, n);
		g_busy = 1; add(p, n, __builtin_return_address(0), SITE2()); g_busy = 0;
		return p;
	}
	if (g_led_active && o && !g_busy) { g_busy = 1; del(o); g_busy = 0; }
	return __real_realloc(o, n);
}
void __wrap_free(void *p)
{
	if (!p) return;
	if (g_led_active && !g_busy) {
		g_busy = 1;
		int tracked = del(p);
		g_busy = 0;
		if (g_in_lib > 0 && !tracked) {
			g_led_bad_free++; g_led_bad_free_ptr = p; g_led_bad_free_site = __builtin_return_address(0);
			return;                     /* do not hand an unknown pointer to the allocator */
		}
	}
	__real_free(p);
}
