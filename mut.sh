#!/bin/bash
# usage: ./mut.sh <repo copy with a seeded change applied> <property ids...>
# runs the quick checks against that copy; evidence goes to a scratch directory, /verif/evidence is untouched
wt=$1; shift
export OFV_REPO=$wt OFV_EVIDENCE_DIR=/tmp/ofv-mut-evidence OFV_NO_REACH=1
mkdir -p $OFV_EVIDENCE_DIR
for p in "$@"; do
  out=$(./ofv check $p --tier ${TIER:-quick} 2>&1); rc=$?
  echo "rc=$rc $(echo "$out" | grep -E '^(HELD|VIOLATED|INCONCLUSIVE) ' | tail -1 | cut -c1-160)"
  echo "$out" | grep -E '^(VIOLATION|INCONCLUSIVE property)' | cut -c1-300 | head -5
done
