#!/bin/bash
# usage: confirm_mut.sh <worktree>  — independent confirmation of a sub-agent's breaking change:
#   (1) suite passes with the change, (2) demo fails with it, (3) demo passes without it. Leaves the change applied.
wt=$1; cd $wt || exit 2
git diff -- src applis > /tmp/confirm.$$.diff
[ -s /tmp/confirm.$$.diff ] || { echo "no change in worktree"; exit 2; }
build() { cmake -G Ninja -B _b -S . >/dev/null 2>&1 && cmake --build _b >/dev/null 2>&1; }
build || { echo "BUILD FAILED with change"; exit 1; }
t=$(ctest --test-dir _b -j16 2>&1 | grep "tests passed"); echo "with change: $t"
bash _mutant/run_demo.sh >/tmp/confirm.$$.with 2>&1; rc1=$?; echo "demo with change: rc=$rc1 ($(tail -1 /tmp/confirm.$$.with | cut -c1-150))"
git apply -R /tmp/confirm.$$.diff && build
bash _mutant/run_demo.sh >/tmp/confirm.$$.without 2>&1; rc2=$?; echo "demo without change: rc=$rc2 ($(tail -1 /tmp/confirm.$$.without | cut -c1-150))"
git apply /tmp/confirm.$$.diff && build
echo "lines changed: $(grep -c '^[-+][^-+]' /tmp/confirm.$$.diff)"
rm -f /tmp/confirm.$$.*
[ "$rc1" != 0 ] && [ "$rc2" = 0 ] && echo "$t" | grep -q "100% tests passed" && echo CONFIRMED || echo NOT-CONFIRMED
