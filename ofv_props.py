"""Per-property configuration of the ofv driver: which build variants run the workload, budgets,
the evidence 'rule' text, crash policy (DESIGN.md section 3.3) and reach requirements."""

BOTH = [dict(variant="asan"), dict(variant="rel")]
VALGRIND = ["valgrind", "-q", "--vgdb=no", "--error-exitcode=43", "--exit-on-first-error=yes", "--undef-value-errors=no", "--leak-check=no", "--num-callers=20"]


def with_memcheck(tier, quick_subset, thorough_subset, nsh=64):
    """the quick workload, thinned to a subset of `nsh` shards, also runs under valgrind memcheck (byte-exact addressability)"""
    jobs = [dict(variant="asan"), dict(variant="rel")]
    subset = thorough_subset if tier == "thorough" else quick_subset
    jobs.append(dict(variant="memcheck", wrapper=VALGRIND, harness_tier="quick", shards=nsh, shard_subset=subset,
                     budget_s=5400 if tier == "thorough" else 600))
    return jobs


PROPS = {}

PROPS["C13"] = dict(
    jobs=lambda tier: with_memcheck(tier, list(range(1, 64, 4)), list(range(64))),
    rule="one case = (kernel, size, operand count or 'all constants', destination alignment, source alignment); "
         "exhaustive over the stated grid; non-trivial = size>0 and at least one operand; distinct by construction. "
         "The same grid runs on the ASan/UBSan build (exact-size heap blocks: any access beyond `size` is a red-zone hit) "
         "and on the -O3 production-flag build (buffer flush against a PROT_NONE page, sources PROT_READ).",
    exhaustive={"quick": True, "thorough": True},
    exhaustive_subspaces={"quick": ["sizes 0..130 x counts 0..20 x 8 dst alignments (XOR kernels)", "sizes 0..130 x 8x8 alignments x every constant (GF kernels)"],
                          "thorough": ["sizes 0..260 fully, 261..1100 sampled alignments, plus 4096 and 65537"]},
    budget_s={"quick": 600, "thorough": 3600},
    require_counters={"any": {"kernel_calls": 1000}},
    assumptions=["64-bit little-endian build only (the 32-bit and big-endian branches are not compiled here)",
                 "GF(2^4) unpacked kernel is exercised with operands < 16 only (its documented domain)"],
)

PROPS["C14"] = dict(
    jobs=[dict(variant="asan", shards=7), dict(variant="rel", shards=7)],
    rule="one case = one table entry compared with bit-serial GF arithmetic (gf.c); every index each array has is visited; "
         "non-trivial = the entry has a field meaning (log[0], inv[0] and log indices >= 2^m are recorded only)",
    exhaustive={"quick": True, "thorough": True},
    exhaustive_subspaces={"quick": ["all entries of the 3 table sets; the generated set again after a 2nd and a 3rd of_rs_init"], "thorough": ["all entries of the 3 table sets; the generated set again after a 2nd and a 3rd of_rs_init"]},
    budget_s={"quick": 300, "thorough": 300},
    require_counters={"any": {"entries_checked": 2 * (16 * 16 + 16 * 256 + 2 * 65536)}},
    assumptions=["tables are observed by header inclusion (static const) and translation-unit inclusion (generated tables)"],
)

PROPS["C19"] = dict(
    jobs=lambda tier: [dict(variant="rel"), dict(variant="asan")] if tier == "quick" else [dict(variant="rel")],
    rule="one case = an arc of consecutive generator steps from an oracle-computed start state (every step checked: next state, "
         "range, RFC double expression, exact floor when s'*maxv < 2^53), a block of random (state,maxv) pairs, or a seeding probe; "
         "plus rounding-sensitive pairs constructed by modular inverse (s'*maxv = +-r mod 2^31-1, |r|<=16, maxv in 2^22..255*50000: every maxv in thorough, every 16th in quick) where the double expression and an exact floor can disagree; "
         "all cases are non-trivial; distinct by construction (random seeds deduplicated by value)",
    exhaustive={"quick": False, "thorough": True},
    exhaustive_subspaces={"thorough": ["all 2^31-2 states of the cycle, in 64 contiguous arcs"], "quick": []},
    budget_s={"quick": 600, "thorough": 3600},
    require_counters={"quick": {"prng_steps_checked": 2 * 200000000, "pairs_where_the_double_expression_differs_from_the_exact_floor": 1000},
                      "thorough": {"prng_steps_checked": 2147483646, "full_cycle_walked": 1, "pairs_where_the_double_expression_differs_from_the_exact_floor": 100000}},
    assumptions=["maxv values are drawn from 1..255*50000, the range the matrix construction can request"],
)

PROPS["C20"] = dict(
    jobs=BOTH,
    rule="one case = (B, L, E) or a row of the exhaustive grid (fixed B, all T); compared with integer RFC 5052 arithmetic; "
         "all cases non-trivial; sampled triples deduplicated by value",
    exhaustive={"quick": False, "thorough": False},
    exhaustive_subspaces={"quick": ["T,B in 1..600, E=1"], "thorough": ["T,B in 1..8000, E=1"]},
    budget_s={"quick": 600, "thorough": 3600},
    require_counters={"any": {"points_checked": 100000}},
    assumptions=["the real applis/eperftool/blocking_struct.c is compiled; its printf goes to /dev/null"],
)

_codec_assume = ["protocol-conforming histories only (one submission style per session, at most one of_finish_decoding, nothing after it, no use of an instance after OF_STATUS_FATAL_ERROR except its release)",
                 "history dimensions of every codec profile: received subset, order, duplicates (same or different buffer), submission API, callback mode, finish or not, role of the instance (decoder, encoder+decoder, encoder+decoder relay for Reed-Solomon), early release, verbosity 0/1/2, a nested session of another block run from inside a callback, throw-away instances refused beforehand, payload contents (random, unit vectors, structured zeros)",
                 "ground truth = the source data the harness gave to the library's own encoder; repair symbols come from that encoder",
                 "default build configuration (64-bit little-endian, OF_DEBUG off, ML decoding on)"]

PROPS["C01"] = dict(
    jobs=BOTH,
    crash_policy="inconclusive",
    rule="one case = one decoder session: (codec, k, r, L, N1, seed, payload) x received subset x arrival order/duplicates x API x finish x callback mode; "
         "all 2^n subsets for the small configurations, sampled around k for the large ones; after every API call the source table is compared byte for byte with the encoded symbols. "
         "non-trivial = at least one source symbol was decoded rather than received; distinct = hash of the full history",
    budget_s={"quick": 900, "thorough": 7200},
    require_counters={"any": {"decoded_during_submission": 100, "decoded_during_finish": 100, "api_set_available_symbols": 100}},
    assumptions=_codec_assume,
)

PROPS["C02"] = dict(
    jobs=BOTH,
    rule="one case = one Reed-Solomon decoder session (codec 1, codec 2 m=8, codec 2 m=4) on a received subset, order, API; all 2^n subsets for n<=10 (quick) / n<=15 (thorough, i.e. every 1<=k<n<=15 of GF(2^4)), "
         "sampled k-subsets and supersets up to n=255; the monitor counts distinct ESIs (the MDS property) and compares decoded symbols with the encoded ones. "
         "non-trivial = a matrix decode happened (>=1 source decoded) or fewer than k symbols were followed by of_finish_decoding",
    budget_s={"quick": 900, "thorough": 7200},
    require_counters={"any": {"decoded_during_submission": 100, "decoded_during_finish": 100, "api_set_available_symbols": 100}},
    assumptions=_codec_assume,
)
PROPS["C03"] = dict(
    jobs=BOTH,
    rule="one case = one LDPC-Staircase session: received subset (all 2^n for small n, sampled in the k..k+15% window for large), order, API, then of_finish_decoding; "
         "oracle = GF(2) rank of the received generator-form vectors restricted to the unknown sources (generator obtained black-box from an identity-payload encoding). "
         "non-trivial = the peeling closure was incomplete, i.e. Gaussian elimination decided the outcome",
    budget_s={"quick": 900, "thorough": 7200},
    require_counters={"any": {"outcome_solvable_complete": 100, "outcome_unsolvable_incomplete": 100}},
    assumptions=_codec_assume + ["the known-zero last repair symbol counts as received when the decoder session reports IS_LAST_SYMBOL_NULL"],
)
PROPS["C04"] = dict(
    jobs=BOTH,
    rule="one case = one LDPC-Staircase streaming history (any order, duplicates), observed after EVERY of_decode_with_new_symbol call: available sources == source part of the peeling closure "
         "(own incremental peeling on the parity-check equations derived black-box from the encoder), completion flag == closure contains all sources; plus constructed deep-chain histories (one call rebuilds thousands of repair symbols in a row, staircases up to 9000 / 20000 equations). non-trivial = at least one submission",
    budget_s={"quick": 900, "thorough": 7200},
    require_counters={"any": {"prefix_checks": 10000, "decoded_during_submission": 100, "deep_chain_depth_ge_4096": 2}},
    assumptions=_codec_assume + ["equations are taken in staircase form: row j = (g_j xor g_{j-1}) on the sources plus repair j and j-1"],
)
PROPS["C10"] = dict(
    jobs=BOTH,
    rule="one case = one decoder session of any of the four codec variants; after every API call the return status, of_is_decoding_complete and of_get_source_symbols_tab are compared with each other and with the shadow model "
         "(which ESIs were submitted while still unknown); of_finish_decoding is issued in every state incl. already complete. non-trivial = at least one submission or a finish call",
    budget_s={"quick": 900, "thorough": 7200},
    require_counters={"any": {"finish_called_complete_after": 100, "finish_called_incomplete_after": 100}},
    assumptions=_codec_assume,
)
PROPS["C11"] = dict(
    jobs=BOTH,
    rule="one case = one decoder session with a decoded-source-symbol callback registered (returns a guarded buffer / NULL / alternating / NULL for odd ESIs / with a repair callback too); "
         "shadow model of submitted and available ESIs; every decoded symbol must have exactly one callback with (esi<k, size=L), the table must report the returned buffer or a library allocation. non-trivial = at least one callback fired",
    budget_s={"quick": 900, "thorough": 7200},
    require_counters={"any": {"callbacks_observed": 1000, "callbacks_returning_null": 100, "decoded_during_finish": 100}},
    assumptions=_codec_assume,
)
PROPS["C07"] = dict(
    jobs=lambda tier: with_memcheck(tier, list(range(3, 64, 4)), list(range(0, 64, 2))),
    rule="one case = one encoder or decoder session history (all codecs, both APIs, all callback modes, early release, both roles) with every application buffer exact-size: "
         "ASan/UBSan build = heap blocks of exactly L bytes at every alignment, before/after checksums; -O3 build = each buffer flush against a PROT_NONE page, received symbols and encoder sources PROT_READ, canary before. all cases non-trivial",
    budget_s={"quick": 900, "thorough": 7200},
    require_counters={"any": {"library_calls": 100000}},
    assumptions=_codec_assume + ["red zones and guard pages detect adjacent violations; a wild access into another live object is caught only if it changes observable data"],
)
PROPS["C08"] = dict(
    jobs=[dict(variant="rel"), dict(variant="asan", env={"OFH_LSAN": "1"})],
    crash_policy="inconclusive",
    rule="one case = one session (encoder, decoder, or both roles) released at an arbitrary point: unconfigured, configured, after j submissions, after IT completion, after successful / failed of_finish_decoding; "
         "link-level allocation ledger (--wrap=malloc,calloc,realloc,free): at return from of_release_codec_instance the live library blocks minus the decoded source symbols visible in the source table must be empty, "
         "and no free of a pointer the ledger does not hold; LeakSanitizer at process exit on the ASan build. all cases non-trivial",
    budget_s={"quick": 900, "thorough": 7200},
    require_counters={"any": {"ledger_allocations": 100000}},
    assumptions=_codec_assume + ["the harness-as-application frees exactly what the API says it owns (decoded source symbols, NULL-slot repair symbols)"],
)

PROPS["C05"] = dict(
    jobs=BOTH,
    rule="one case = one (k, r, N1, seed): the parity-check equations of an encoder session and of a decoder session (public sparse-matrix structure right after of_set_fec_parameters) "
         "and the equations revealed black-box by encoding unit-vector payloads are compared row by row with the RFC 5170 construction re-implemented in rfc5170.c; "
         "each configuration is built right away / after 1-5 unrelated sessions (other LDPC parameters, RS, 2D, ML decoding, application srand()) / with another construction between create and set_fec_parameters; "
         "a sample is rebuilt in a freshly exec'ed process and compared. all cases non-trivial; distinct by (k,r,N1,seed,history mode)",
    budget_s={"quick": 900, "thorough": 7200},
    require_counters={"any": {"configs_observed_black_box": 500, "configs_observed_white_box": 1000, "configs_compared_with_fresh_process": 5}},
    assumptions=["the RFC 5170 oracle is a transcription of the RFC pseudo-code; for k=1 the RFC's degree-1 loop cannot terminate and is skipped by library and oracle alike",
                 "white-box observation relies on the public of_mod2sparse structure and the column layout (repair columns first)"],
)
PROPS["C15"] = dict(
    jobs=BOTH,
    rule="one case = one (k, r, N1, seed), even N1 plus odd-N1 controls: OF_CRTL_LDPC_STAIRCASE_IS_LAST_SYMBOL_NULL of an encoder and of a decoder session; when true, the last repair symbol of the unit-vector block "
         "(which decides all source data by linearity) and of 3 random blocks must be all zeros. non-trivial = the claim is true",
    budget_s={"quick": 900, "thorough": 7200},
    require_counters={"any": {"true_claims_observed": 200, "false_claims_observed": 50, "random_blocks_checked_under_true_claim": 500}},
    assumptions=["linearity: a zero last repair symbol for the k unit-vector sources implies zero for every source block"],
)
PROPS["C06"] = dict(
    jobs=BOTH,
    rule="one case = one encoder session: RS (codec 1, codec 2 m=8, m=4): every k in 1..2^m-2 with n=2^m-1 (so every generator row of every (m,k)) plus sampled shorter n, unit-vector and random payloads, NULL and application output slots, "
         "compared with the reference code rsref.c; codec 1 vs codec 2 (m=8) byte for byte; LDPC-Staircase: every equation of the RFC 5170 matrix sums to zero over the emitted codeword; sources are PROT_READ / checksummed. all cases non-trivial",
    exhaustive_subspaces={"quick": ["every (m,k) with n=2^m-1, every repair ESI"], "thorough": ["every (m,k) with n=2^m-1, every repair ESI"]},
    budget_s={"quick": 900, "thorough": 7200},
    require_counters={"any": {"repair_symbols_compared_with_reference": 30000, "ldpc_equations_checked": 1000, "codec1_codec2_codewords_compared": 254, "null_output_slots": 100}},
    assumptions=["LDPC: the staircase makes the solution of the parity-check equations unique, so 'all equations sum to zero' determines the repair symbols"],
)

PROPS["C09"] = dict(
    jobs=[dict(variant="asan", env={"OFH_ASAN_EXTRA": ":max_allocation_size_mb=1024"}), dict(variant="rel")],
    rule="one case = one grid point (codec, k, r, L, m, N1, seed, role) offered to of_set_fec_parameters — value sets {0,1,2,limit-1,limit,limit+1,2*limit,2^16,2^31-1,2^31,2^32-1,wrap-around} per field, "
         "all combinations with at most 2 (quick) / 3 (thorough) non-nominal fields — judged by the predicate of the property text with MAX_K/MAX_N read from of_get_control_parameter; points outside the limits or large run in a forked child with a watchdog; "
         "accepted points inside the limits run a full encode/lose/decode/compare cycle; plus argument-corruption cases (NULL session, ESI out of range, wrong role, NULL table/symbol) on every entry point followed by a normal cycle on the same session. all cases non-trivial",
    budget_s={"quick": 1200, "thorough": 7200},
    require_counters={"any": {"points_inside_limits": 100, "points_outside_limits": 500, "usability_cycles": 50, "corrupted_calls": 200}},
    assumptions=["symbol lengths above 70000 bytes are checked for acceptance only (no encode/decode cycle)", "ASan build: allocator_may_return_null=1 so absurd sizes behave like a failing malloc; -O3 build: RLIMIT_AS 6 GiB in the child"],
)

PROPS["C16"] = dict(
    jobs=BOTH,
    rule="every (k, r) with 0<=k<=17, 0<=r<=26 is offered to of_set_fec_parameters (in a child); for each accepted one: the check structure revealed by encoding unit vectors must be a d x l product single-parity code, "
         "a random codeword must satisfy every check, and decoder sessions run on ALL 2^n received subsets for n<=16 (quick) / every accepted n<=24 (thorough), else all single and double losses plus samples; "
         "both APIs, 3 orders, callbacks, early release; oracle = GF(2) rank (erasures determined?), ground truth bytes, allocation ledger at release. non-trivial = at least one source symbol decoded",
    exhaustive_subspaces={"quick": ["all (k,r) in the window offered", "all 2^n subsets for accepted n<=16"], "thorough": ["all 2^n subsets for every accepted (k,r), n<=24"]},
    budget_s={"quick": 1200, "thorough": 10800},
    require_counters={"any": {"configurations_accepted": 5, "structures_verified": 5, "outcome_determined_recovered": 1000, "outcome_undetermined_incomplete": 1000}},
    assumptions=_codec_assume,
)

PROPS["C17"] = dict(
    jobs=BOTH,
    rule="one case = one operation sequence over up to three sparse matrices, mirrored on a boolean-array model: allocate, insert, find, delete, clear, copy, copyrows, copycols, the _opt copy variants (empty destination), copy_filled_matrix, "
         "sparse->dense->sparse, free; after every operation a structural walk of every row and column list (strict order, left/right/up/down consistency, counts) and periodically find() on every cell; "
         "all sequences of length<=4 (quick) / 5 (thorough) over a 2x3 matrix exhaustively, scripted hostile sequences, random sequences up to 70x70 filled beyond one 1024-entry block; allocation ledger must be empty after freeing. all cases non-trivial",
    exhaustive_subspaces={"quick": ["all 15-letter operation sequences of length <= 4 on a 2x3 matrix"], "thorough": ["all 15-letter operation sequences of length <= 5 on a 2x3 matrix"]},
    budget_s={"quick": 240, "thorough": 3600}, case_timeout_s=60, hang_class="sparse-sequence",
    require_counters={"any": {"sparse_operations": 1000000, "exhaustive_small_sequences": 50000}},
    assumptions=["preconditions are those of the headers: in-range indices, destination at least as large, _opt copy variants only into an empty destination"],
)
PROPS["C18"] = dict(
    jobs=BOTH,
    rule="one case = one random operation sequence on dense matrices (rows 1..72, column counts {1,2,7,31,32,33,63,64,65,95,96,97,130}, destinations equal to and larger than the source) mirrored on a byte-per-bit model and compared cell by cell, "
         "or one p x q system (p in {q,q+1,q+5,2q}) with a planted symbol solution handed to of_linear_binary_code_solve_dense_system — full column rank and deliberately rank-deficient (duplicate / zero / dependent column) in equal numbers, rank decided by gf2.c; "
         "popcount helpers on all 2^16 low and high half-words. all cases non-trivial",
    budget_s={"quick": 900, "thorough": 7200},
    require_counters={"any": {"dense_operations": 1000000, "solver_full_rank_systems": 2000, "solver_rank_deficient_systems": 2000}},
    assumptions=["all right-hand sides of the solver are real (non-NULL) symbols, as the property states"],
)

PROPS["C12"] = dict(
    jobs=BOTH,
    rule="one case = 2..6 session scripts (encoders and decoders of RS GF(2^8), RS GF(2^m) m=4/8, LDPC-Staircase with different seeds/N1, 2D parity; both APIs, callbacks, finish) merged by a random / strict round-robin / burst interleaving at API-call granularity in a process with a long history, "
         "versus each script run alone in a freshly exec'ed process (one fork per script, before any library call); per call the status, completion flag, digest of the output buffer, class (NULL/app/callback/library) and digest of every source-table entry and the set of callback events are compared. "
         "non-trivial = the script made more than 3 calls; distinct = hash of the merged order",
    budget_s={"quick": 900, "thorough": 7200},
    require_counters={"any": {"session_scripts": 1000, "api_calls_compared": 20000}},
    assumptions=["pointers are classified, never compared numerically; callback events are compared as a set per call (the ML pass injects repair symbols in rand() order)"],
)


# ---- reach audit anchors (functions named in each property's `mechanism`; lines of special interest) ----
_ANCH = {
 "C01": ["of_rs_decode", "of_rs_2m_decode", "of_linear_binary_code_decode_with_new_symbol", "of_linear_binary_code_finish_decoding_with_ml", "of_linear_binary_code_solve_dense_system"],
 "C02": ["of_rs_new", "of_rs_2m_build_encoding_matrix", "of_invert_mat", "of_galois_field_2_4_invert_mat", "of_galois_field_2_8_invert_mat", "of_rs_decode_with_new_symbol", "of_rs_2_m_decode_with_new_symbol"],
 "C03": ["of_linear_binary_code_simplify_linear_system_with_a_symbol", "of_linear_binary_code_create_simplified_linear_system", "of_mod2sparse_copy_filled_matrix", "of_linear_binary_code_col_forward_elimination", "of_linear_binary_code_backward_substitution"],
 "C04": ["of_linear_binary_code_decode_with_new_symbol"],
 "C05": ["of_create_pchck_matrix_rfc5170_compliant", "of_rfc5170_rand", "of_rfc5170_srand"],
 "C06": ["of_rs_encode", "of_rs_2m_encode", "of_ldpc_staircase_build_repair_symbol"],
 "C07": ["of_rs_finish_decoding", "of_rs_2_m_finish_decoding", "of_decode_with_new_symbol", "of_add_to_symbol", "of_add_from_multiple_symbols", "of_add_to_multiple_symbols", "of_addmul1", "of_galois_field_2_8_addmul1", "of_galois_field_2_4_addmul1_compact"],
 "C08": ["of_rs_release_codec_instance", "of_rs_2_m_release_codec_instance", "of_ldpc_staircase_release_codec_instance", "of_linear_binary_code_finish_decoding_with_ml"],
 "C09": ["of_set_fec_parameters", "of_rs_set_fec_parameters", "of_rs_2_m_set_fec_parameters", "of_ldpc_staircase_set_fec_parameters", "of_create_pchck_matrix_rfc5170_compliant", "of_build_repair_symbol", "of_decode_with_new_symbol"],
 "C10": ["of_rs_finish_decoding", "of_rs_2_m_finish_decoding", "of_linear_binary_code_finish_decoding_with_ml", "of_rs_decode_with_new_symbol"],
 "C11": ["of_rs_finish_decoding", "of_rs_2_m_finish_decoding", "of_linear_binary_code_decode_with_new_symbol", "of_linear_binary_code_finish_decoding_with_ml"],
 "C12": ["of_create_pchck_matrix_rfc5170_compliant", "of_rs_init", "of_linear_binary_code_finish_decoding_with_ml"],
 "C13": ["of_add_to_symbol", "of_add_from_multiple_symbols", "of_add_to_multiple_symbols", "of_addmul1", "of_galois_field_2_8_addmul1", "of_galois_field_2_4_addmul1", "of_galois_field_2_4_addmul1_compact"],
 "C14": ["of_generate_gf", "of_rs_init_mul_table"],
 "C15": ["of_ldpc_staircase_get_control_parameter", "of_ldpc_staircase_set_fec_parameters"],
 "C16": ["of_create_2D_pchk_matrix", "of_fill_2D_pchk_matrix", "of_2d_parity_decode_with_new_symbol", "of_2d_parity_finish_decoding"],
 "C17": ["of_mod2sparse_insert", "of_mod2sparse_insert_opt", "of_mod2sparse_delete", "of_mod2sparse_clear", "of_mod2sparse_free"],
 "C18": ["of_mod2dense_get", "of_mod2dense_set", "of_mod2dense_flip", "of_linear_binary_code_col_forward_elimination", "of_linear_binary_code_backward_substitution"],
 "C19": ["of_rfc5170_rand", "of_rfc5170_srand"],
 "C20": ["of_compute_blocking_struct", "double_to_closest_int"],
}
_LINES = {
 "C03": [("ml_decoding/of_ml_tool.c", "tmp_buffer = constant_tab[i];", "row swap of the right-hand sides in forward elimination"),
         ("ml_decoding/of_ml_tool.c", "of_add_from_multiple_symbols(variable_tab[i]", "back substitution adds already solved variables")],
 "C18": [("ml_decoding/of_ml_tool.c", "tmp_buffer = constant_tab[i];", "row swap of the right-hand sides in forward elimination")],
 "C04": [("it_decoding/of_it_decoding.c", "of_linear_binary_code_decode_with_new_symbol (ofcb, decoded_symbol_dst, decoded_symbol_esi);", "step 3: re-injection of a rebuilt source symbol"),
         ("it_decoding/of_it_decoding.c", "of_linear_binary_code_decode_with_new_symbol (ofcb, const_term, decoded_symbol_esi);", "step 3: re-injection of a rebuilt repair symbol")],
 "C11": [("ml_decoding/of_ml_decoding.c", "void	*app_buf = ofcb->decoded_source_symbol_callback", "callback for a symbol recovered by Gaussian elimination")],
}
PROPS["C14"]["reach_shards"] = [0, 1, 2, 3, 4, 5, 6]
PROPS["C19"]["reach_shards"] = [0, 1, 2, 3]
PROPS["C19"]["require_counters"]["quick"]["reduction_boundary_steps_checked"] = 2 * 70000
PROPS["C19"]["require_counters"]["thorough"]["reduction_boundary_steps_checked"] = 70000
_EXH = {"C01": (12, 15), "C02": (11, 15), "C03": (13, 16), "C04": (12, 15), "C07": (8, 11), "C08": (11, 13), "C10": (12, 15), "C11": (12, 15)}
for _p, (_q, _t) in _EXH.items():
    PROPS[_p]["exhaustive_subspaces"] = {"quick": ["all 2^n received subsets of every listed configuration with n <= %d (the other dimensions are sampled per subset)" % _q],
                                         "thorough": ["all 2^n received subsets of every listed configuration with n <= %d" % _t]}
for _p in PROPS:
    _b = PROPS[_p].setdefault("budget_s", {})
    _b["quick"] = {"C05": 240, "C15": 240, "C13": 240, "C14": 120, "C19": 240, "C20": 240, "C17": 240}.get(_p, 600)
    PROPS[_p].setdefault("case_timeout_s", 120)
    PROPS[_p]["anchors"] = _ANCH.get(_p, [])
    PROPS[_p]["line_anchors"] = _LINES.get(_p, [])
