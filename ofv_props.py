"""Per-property configuration of the ofv driver: which build variants run the workload, budgets,
the evidence 'rule' text, crash policy (DESIGN.md section 3.3) and reach requirements."""

BOTH = [dict(variant="asan"), dict(variant="rel")]

PROPS = {}

PROPS["C13"] = dict(
    jobs=BOTH,
    rule="one case = (kernel, size, operand count or 'all constants', destination alignment, source alignment); "
         "exhaustive over the stated grid; non-trivial = size>0 and at least one operand; distinct by construction. "
         "The same grid runs on the ASan/UBSan build (exact-size heap blocks: any access beyond `size` is a red-zone hit) "
         "and on the -O3 production-flag build (buffer flush against a PROT_NONE page, sources PROT_READ).",
    exhaustive={"quick": True, "thorough": True},
    exhaustive_subspaces={"quick": ["sizes 0..130 x counts 0..20 x 8 dst alignments (XOR kernels)", "sizes 0..130 x 8x8 alignments x every constant (GF kernels)"],
                          "thorough": ["sizes 0..260 fully, 261..1100 sampled alignments, plus 4096 and 65537"]},
    budget_s={"quick": 600, "thorough": 3600},
    require_counters={"any": {"kernel_calls": 1000}},
    assumptions=["64-bit little-endian build only (the 32-bit and big-endian branches are not compiled here)",
                 "GF(2^4) unpacked kernel is exercised with operands < 16 only (its documented domain)"],
)

PROPS["C14"] = dict(
    jobs=[dict(variant="asan", shards=3), dict(variant="rel", shards=3)],
    rule="one case = one table entry compared with bit-serial GF arithmetic (gf.c); every index each array has is visited; "
         "non-trivial = the entry has a field meaning (log[0], inv[0] and log indices >= 2^m are recorded only)",
    exhaustive={"quick": True, "thorough": True},
    exhaustive_subspaces={"quick": ["all entries of the 3 table sets"], "thorough": ["all entries of the 3 table sets"]},
    budget_s={"quick": 300, "thorough": 300},
    require_counters={"any": {"entries_checked": 2 * (16 * 16 + 16 * 256 + 2 * 65536)}},
    assumptions=["tables are observed by header inclusion (static const) and translation-unit inclusion (generated tables)"],
)

PROPS["C19"] = dict(
    jobs=lambda tier: [dict(variant="rel"), dict(variant="asan")] if tier == "quick" else [dict(variant="rel")],
    rule="one case = an arc of consecutive generator steps from an oracle-computed start state (every step checked: next state, "
         "range, RFC double expression, exact floor when s'*maxv < 2^53), a block of random (state,maxv) pairs, or a seeding probe; "
         "all cases are non-trivial; distinct by construction (random seeds deduplicated by value)",
    exhaustive={"quick": False, "thorough": True},
    exhaustive_subspaces={"thorough": ["all 2^31-2 states of the cycle, in 64 contiguous arcs"], "quick": []},
    budget_s={"quick": 600, "thorough": 3600},
    require_counters={"quick": {"prng_steps_checked": 2 * 200000000}, "thorough": {"prng_steps_checked": 2147483646, "full_cycle_walked": 1}},
    assumptions=["maxv values are drawn from 1..255*50000, the range the matrix construction can request"],
)

PROPS["C20"] = dict(
    jobs=BOTH,
    rule="one case = (B, L, E) or a row of the exhaustive grid (fixed B, all T); compared with integer RFC 5052 arithmetic; "
         "all cases non-trivial; sampled triples deduplicated by value",
    exhaustive={"quick": False, "thorough": False},
    exhaustive_subspaces={"quick": ["T,B in 1..600, E=1"], "thorough": ["T,B in 1..3000, E=1"]},
    budget_s={"quick": 600, "thorough": 3600},
    require_counters={"any": {"points_checked": 100000}},
    assumptions=["the real applis/eperftool/blocking_struct.c is compiled; its printf goes to /dev/null"],
)
