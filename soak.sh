#!/bin/bash
# silence soak: every quick check for several VERIF_SEED values; prints only non-HELD results
for seed in "$@"; do
  for i in $(seq -w 1 20); do
    out=$(VERIF_SEED=$seed ./ofv check C$i --tier quick 2>&1); rc=$?
    line=$(echo "$out" | grep -E '^(HELD|VIOLATED|INCONCLUSIVE) ' | tail -1)
    if [ $rc -ne 0 ]; then echo "seed=$seed rc=$rc $line"; echo "$out" | grep -E '^(VIOLATION|INCONCLUSIVE property)' | cut -c1-300 | head -5; fi
  done
  echo "seed $seed done"
done
