#!/usr/bin/env python3
"""import_mut.py <worktree> <seeded-id> <property> <caught-by comma list or -> <missed-by comma list or -> "<needs>"
Copies a confirmed breaking change (patch, demonstration, notes) into /verif/seeded/<seeded-id>/ with meta.json."""
import sys, os, shutil, json, subprocess
wt, sid, prop, caught, missed, needs = sys.argv[1:7]
dst = os.path.join(os.path.dirname(os.path.abspath(__file__)), "seeded", sid)
os.makedirs(dst, exist_ok=True)
diff = subprocess.run(["git", "-C", wt, "diff", "--", "src", "applis"], stdout=subprocess.PIPE, text=True).stdout
open(os.path.join(dst, "patch.diff"), "w").write(diff)
for f in os.listdir(os.path.join(wt, "_mutant")):
    src = os.path.join(wt, "_mutant", f)
    if os.path.isfile(src) and os.path.getsize(src) < 200000 and not f.endswith((".o", ".so")) and f != "patch.diff" and os.access(src, os.R_OK):
        if f in ("demo", "a.out") or (os.access(src, os.X_OK) and not f.endswith(".sh")):
            continue
        shutil.copyfile(src, os.path.join(dst, f))
meta = dict(
    property=prop, id=sid, origin="independent sub-agent given only the property text and a scratch worktree (%s)" % wt,
    needs_to_manifest=needs,
    confirmed=dict(suite_with_change="265/265 passed (cmake -G Ninja -B _b && cmake --build _b && ctest --test-dir _b -j16)",
                   demo_with_change="fails (non-zero exit)", demo_without_change="passes (exit 0)", how="confirm_mut.sh in a scratch worktree: build+ctest with the change, run_demo.sh, git apply -R, rebuild, run_demo.sh, re-apply"),
    checks_run="./mut.sh <worktree> <ids> = ./ofv check <id> --tier quick with OFV_REPO pointing at the patched copy",
    checks_expected_to_fire=[c for c in caught.split(",") if c and c != "-"],
    checks_that_stay_silent=[c for c in missed.split(",") if c and c != "-"],
    note="run_demo.sh refers to the sub-agent's scratch worktree path; apply patch.diff to a copy of /repo and adjust the path to re-run it. ./ofv seeded %s re-runs the checks against the patch." % sid,
)
json.dump(meta, open(os.path.join(dst, "meta.json"), "w"), indent=1)
print("imported", sid, sorted(os.listdir(dst)))
